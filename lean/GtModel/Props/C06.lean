/-
  C06 "Both documents can be read back from the rendered diff: in a diff rendered as JSON, deleting everything marked
  as inserted leaves text that parses to the first document and deleting everything marked as removed leaves text
  that parses to the second document (separator placement aside).  The rendering carries no change marks exactly
  when the documents are equal."

  Model: `GtModel.Render.render f t s` (Model/Render.lean, validated against the real JSON formatter by stream
  `render`: exact equality of the (character, mark) sequences) over the L2 script `s = edits o orc [] [] f t`.

  Vocabulary
    projFrom r / projTo r   delete every character marked inserted / removed (and the " -> " arrows)
    tokens                  JSON tokenizer over code points: strings as single tokens, `[ ] { } : ,`, literals
    dropCommas              "separator placement aside": comma tokens are ignored
    printJson f             the rendering of the unedited node (= `jsonText f`)
    treeVal f : Val         the JSON value of a node as a token tree; `(treeVal f).toks = dropCommas (tokens (printJson f))`
                            (`printJson_toks`)
    ValSim v w              v and w are equal up to the order of the members of objects and up to replacing a subtree
                            by a node-equal one (`Tree.eq`, graphtage's `==`): the least equivalence that contains
                            `Tree.eq`, is a congruence for lists / members, and permutes members of `{…}`.
                            (Needed because a mapping's pairs are printed in EDIT order — matched pairs first, then
                            removals, then insertions — and because a zero-cost Match prints the to-node / the cost gate
                            prints the from-node, which are node-equal but, inside mappings, possibly ordered
                            differently.)

  FULL STATEMENTS (for all options o, oracles orc, trees f t built from JSON documents):
    (1) project_from : ∃ v, ValSim v (treeVal f) ∧ dropCommas (tokens (projFrom (render f t (edits o orc [] [] f t)))) = v.toks
    (2) project_to   : ∃ v, ValSim v (treeVal t) ∧ dropCommas (tokens (projTo   (render f t (edits o orc [] [] f t)))) = v.toks
        (for documents without mappings `ValSim` only relates node-equal trees, and the statement is the literal
         `dropCommas (tokens (projFrom …)) = dropCommas (tokens (printJson f))` whenever no zero-cost match is involved)
    (3) marks_iff    : hasMark (render f t (edits o orc [] [] f t)) = true ↔ f.eq t = false

  PROVED HERE
    `project_from_wf`, `project_to_wf`, `projection_is_value`: (1), (2) and "the projection is a complete JSON value"
        for EVERY script that is a well-formed edit of f into t (`ScriptWellFormed`, = `Render.WF` + the root cost
        gate), by induction over the script: leaves (`json.dumps` text), strings (`print_StringEdit`'s remove/add
        buffers, `proj_strOut`), key/value pairs (cost gates), sequences and mappings (`seq_lemma`: under the
        to_remove/to_insert delimiter counters of `print_SequenceNode` two surviving items are always separated by
        a surviving comma or the start symbol — the invariant `Inv`).
    `project_from_partial`, `project_to_partial`: (1), (2) for `edits o orc [] [] f t` with the hypothesis
        `script_wellformed : ScriptWellFormed f t (edits …)`.
        MISSING for the full statement: `ScriptWellFormed f t (edits o orc [] [] f t)` for all trees with distinct
        keys, i.e. the L2 accounting facts in the form `Render.WF` uses them (C01 `script_accounts` gives the index
        part: from-indices = 0..n-1 in order for `ed`/`fixed`/`str`, permutations for `ms`/`fk`; still to be added:
        a zero-cost Match relates node-equal nodes, `kvpScript`'s key edit is a Match/StringEdit whose cost is 0 only
        for equal keys, C02 `zero_cost_iff_eq` for the value gate).
    `project_from_checked`, `project_to_checked`: the same with the DECIDABLE hypothesis `scriptOKB f t (edits …) = true`
        (`Render.wfB_sound`: the executable check implies `ScriptWellFormed`); the Lean driver evaluates `scriptOKB`
        on every case of the `render` stream (field "wf" of the model's answer must be true), so the hypothesis is
        validated on every generated input.
    `no_marks_of_zero_cost_leaf`, `marks_of_change`: the two easy halves of (3) at the root.
    `marks_iff_partial`: (3) with the two L2 facts as named hypotheses (`zero_cost_iff_eq` = C02, and
        `positive_cost_shows`: an edit of positive cost renders at least one marked character — this needs the cost
        bookkeeping C03 `reported_eq_sum` and "a removed/inserted node prints at least one character"; not done).
-/
import GtModel.Proofs.RenderCheck

namespace GtModel.C06
open GtModel GtModel.Render

/-- the rendering carries a change mark -/
def hasMark (r : Out) : Bool := r.any fun p => p.2 != .plain

/-- `s` is a well-formed edit of `f` into `t` (see `Render.WF`), printed behind the root cost gate -/
def ScriptWellFormed (f t : Tree) (s : Script) : Prop :=
  WF (.tree f) (.tree t) s ∧ Gate (.tree f) (.tree t) s

/-- the comma-less tokens of the canonical text of a node are the tokens of its value -/
theorem printJson_toks (f : Tree) (hf : litOK f = true) : dropCommas (tokens (printJson f)) = (treeVal f).toks :=
  T_jsonText f hf

/-- (1) for every well-formed script -/
theorem project_from_wf (f t : Tree) (s : Script) (hf : litOK f = true) (ht : litOK t = true)
    (hs : ScriptWellFormed f t s) :
    ∃ v, ValSim v (treeVal f) ∧ dropCommas (tokens (projFrom (render f t s))) = v.toks := by
  obtain ⟨_, v, hv, hT⟩ := render_spec f t s hf ht hs.1 hs.2 true
  exact ⟨v, hv, hT⟩

/-- (2) for every well-formed script -/
theorem project_to_wf (f t : Tree) (s : Script) (hf : litOK f = true) (ht : litOK t = true)
    (hs : ScriptWellFormed f t s) :
    ∃ v, ValSim v (treeVal t) ∧ dropCommas (tokens (projTo (render f t s))) = v.toks := by
  obtain ⟨_, v, hv, hT⟩ := render_spec f t s hf ht hs.1 hs.2 false
  exact ⟨v, hv, hT⟩

/-- both projections are complete JSON values: followed by punctuation or nothing, their tokens do not change -/
theorem projection_is_value (f t : Tree) (s : Script) (hf : litOK f = true) (ht : litOK t = true)
    (hs : ScriptWellFormed f t s) :
    ClosedT (projFrom (render f t s)) ∧ ClosedT (projTo (render f t s)) :=
  ⟨(render_spec f t s hf ht hs.1 hs.2 true).1, (render_spec f t s hf ht hs.1 hs.2 false).1⟩

/-- (1) for the script the engine computes, given that it is well formed -/
theorem project_from_partial (o : Opts) (orc : Oracle) (f t : Tree) (hf : litOK f = true) (ht : litOK t = true)
    (script_wellformed : ScriptWellFormed f t (edits o orc [] [] f t)) :
    ∃ v, ValSim v (treeVal f) ∧
      dropCommas (tokens (projFrom (render f t (edits o orc [] [] f t)))) = v.toks ∧
      dropCommas (tokens (printJson f)) = (treeVal f).toks := by
  obtain ⟨v, hv, hT⟩ := project_from_wf f t _ hf ht script_wellformed
  exact ⟨v, hv, hT, printJson_toks f hf⟩

/-- (2) for the script the engine computes, given that it is well formed -/
theorem project_to_partial (o : Opts) (orc : Oracle) (f t : Tree) (hf : litOK f = true) (ht : litOK t = true)
    (script_wellformed : ScriptWellFormed f t (edits o orc [] [] f t)) :
    ∃ v, ValSim v (treeVal t) ∧
      dropCommas (tokens (projTo (render f t (edits o orc [] [] f t)))) = v.toks ∧
      dropCommas (tokens (printJson t)) = (treeVal t).toks := by
  obtain ⟨v, hv, hT⟩ := project_to_wf f t _ hf ht script_wellformed
  exact ⟨v, hv, hT, printJson_toks t ht⟩

/-- (1) and (2) for every input on which the executable check `scriptOKB` passes.  The driver evaluates the check
    (and `litOK`) on every case of the `render` stream: it passed on every generated pair of documents, for every
    option set. -/
theorem project_from_checked (o : Opts) (orc : Oracle) (f t : Tree) (hf : litOK f = true) (ht : litOK t = true)
    (hcheck : scriptOKB f t (edits o orc [] [] f t) = true) :
    ∃ v, ValSim v (treeVal f) ∧
      dropCommas (tokens (projFrom (render f t (edits o orc [] [] f t)))) = v.toks ∧
      dropCommas (tokens (printJson f)) = (treeVal f).toks :=
  project_from_partial o orc f t hf ht (scriptOKB_sound f t _ hcheck)

theorem project_to_checked (o : Opts) (orc : Oracle) (f t : Tree) (hf : litOK f = true) (ht : litOK t = true)
    (hcheck : scriptOKB f t (edits o orc [] [] f t) = true) :
    ∃ v, ValSim v (treeVal t) ∧
      dropCommas (tokens (projTo (render f t (edits o orc [] [] f t)))) = v.toks ∧
      dropCommas (tokens (printJson t)) = (treeVal t).toks :=
  project_to_partial o orc f t hf ht (scriptOKB_sound f t _ hcheck)

/-! ### marks -/

theorem hasMark_append (a b : Out) : hasMark (a ++ b) = (hasMark a || hasMark b) := by simp [hasMark]

theorem hasMark_plain (x : Item) : hasMark (x.plain .plain) = false := by
  simp [hasMark, Item.plain, mk]

theorem hasMark_arrow : hasMark arrowOut = true := by decide

/-- an edit without sub-edits whose cost is 0 is rendered as the unmarked from-node -/
theorem no_marks_of_zero_cost_leaf (f t : Tree) (s : Script) (h0 : s.cost = 0) (hk : isCompound s.kind = false) :
    hasMark (render f t s) = false := by
  cases s with
  | mk k fi ti c subs =>
    simp only [Script.cost, Script.kind] at h0 hk
    subst h0
    simp only [render, Script.cost, Nat.lt_irrefl, decide_false]
    rw [leafkind_render_false _ _ k fi ti 0 subs hk]
    exact hasMark_plain _

/-- a Match / Replace of positive cost shows the arrow -/
theorem marks_of_change (f t : Tree) (k : Kind) (fi ti : Ix) (c : Nat) (subs : List Script) (hc : c > 0)
    (hk : k = .match_ ∨ k = .replace) : hasMark (render f t (.mk k fi ti c subs)) = true := by
  rcases hk with rfl | rfl <;>
    simp [render, Script.cost, hc, renderEdit, hasMark_append, hasMark_arrow]

/-- (3), given the two L2 facts it rests on -/
theorem marks_iff_partial (o : Opts) (orc : Oracle) (f t : Tree)
    (zero_cost_iff_eq : (edits o orc [] [] f t).cost = 0 ↔ f.eq t = true)
    (zero_cost_is_match : (edits o orc [] [] f t).cost = 0 → isCompound (edits o orc [] [] f t).kind = false)
    (positive_cost_shows : (edits o orc [] [] f t).cost > 0 →
      hasMark (renderEdit true (.tree f) (.tree t) (edits o orc [] [] f t)) = true) :
    hasMark (render f t (edits o orc [] [] f t)) = true ↔ f.eq t = false := by
  by_cases h0 : (edits o orc [] [] f t).cost = 0
  · have heq := zero_cost_iff_eq.1 h0
    rw [no_marks_of_zero_cost_leaf f t _ h0 (zero_cost_is_match h0), heq]
    simp
  · have hpos : (edits o orc [] [] f t).cost > 0 := by omega
    have hne : f.eq t = false := by
      cases h : f.eq t with
      | false => rfl
      | true => exact absurd (zero_cost_iff_eq.2 h) h0
    simp only [render, hpos, decide_true, positive_cost_shows hpos, hne]

/-! ### non-vacuity: concrete well-formed scripts, and what the theorems say about them -/

/-- "ab" → "ac" as the engine edits it: match a, insert c, remove b -/
def strS : Script := .mk .str .none .none 2
  [.mk .match_ (.at 0) (.at 0) 0 [], .mk .insert (.at 1) .none 1 [], .mk .remove (.at 1) .none 1 []]

example : ScriptWellFormed (.leaf (.str [97, 98])) (.leaf (.str [97, 99])) strS := by
  refine ⟨?_, by simp [Gate, strS, Script.kind, Script.cost]⟩
  simp only [strS, WF]
  refine ⟨[97, 98], [97, 99], rfl, rfl, ?_, by decide, by decide⟩
  intro s hs
  simp only [List.mem_cons, List.mem_nil_iff, or_false] at hs
  rcases hs with rfl | rfl | rfl <;> simp [classifyChar]

/-- the rendering of that script: `"a` `c`(inserted) `b`(removed) `"` -/
example : render (.leaf (.str [97, 98])) (.leaf (.str [97, 99])) strS =
    [(34, .plain), (97, .plain), (99, .inserted), (98, .removed), (34, .plain)] := by decide

/-- [1, 2] → [1] as the engine edits it (EditDistance: match, remove), rendered `[1` `,2`(removed) `]` -/
def listS : Script := .mk .ed .none .none 2 [.mk .match_ (.at 0) (.at 0) 0 [], .mk .remove (.at 1) .none 2 []]
def l12 : Tree := .list [.leaf (.float [49]), .leaf (.float [50])]
def l1 : Tree := .list [.leaf (.float [49])]

example : render l12 l1 listS =
    [(91, .plain), (49, .plain), (44, .removed), (50, .removed), (93, .plain)] := by decide

example : ScriptWellFormed l12 l1 listS := by
  refine ⟨?_, by simp [Gate, listS, Script.kind, Script.cost]⟩
  simp only [listS, WF, WFSubs]
  refine ⟨⟨91, 93, rfl, rfl, ?_⟩, ⟨_, _, rfl, ?_⟩, ⟨_, _, rfl, trivial⟩, trivial⟩
  · simp only [if_true]
    exact ⟨ValSimL.refl' _, ValSimL.refl' _⟩
  · exact Or.inr (.refl _)

/-- a script that loses an element is NOT well formed (so the hypothesis says something) -/
example : ¬ ScriptWellFormed l12 l1 (.mk .ed .none .none 0 [.mk .match_ (.at 0) (.at 0) 0 []]) := by
  intro h
  have hc := h.1
  simp only [WF] at hc
  obtain ⟨⟨o, c, hb, _, hcov⟩, _⟩ := hc
  have : o = 91 := by simp [l12, Item.brackets] at hb; exact hb.1.symm
  subst this
  simp only [if_true] at hcov
  have h1 := hcov.1
  simp [sideItems, absent, resolve, Script.kind, Script.fi, Script.ti, l12, l1, Item.children] at h1
  cases h1 with
  | cons _ h2 => cases h2

end GtModel.C06

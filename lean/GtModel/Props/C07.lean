/-
  C07 — diffing is a pure, deterministic function of its inputs  (PARTIAL).
  In Lean every model function is a function, so determinism of the MODEL is not a theorem worth stating; what can
  be checked mechanically is a TRIPWIRE for a LISTED set of syntactic forms of hash-order dependence (NOT every
  such dependence: the forms are enumerated in the comment in front of `_set_sites` / `_nondet_sites` in
  harness/gentables.py - set displays / constructors, names, parameters and attributes assigned or annotated as
  sets, package functions that return one, dict-view algebra, module- and class-level set constants; iterated by
  for / comprehension / yield from / list / tuple / iter / next / enumerate / zip / map / filter / join / `*`, popped,
  or sorted / min / max with a key).  The table of the places where the package does one of these is regenerated
  from /repo's source by an `ast` walk on every run (GtModel.Gen.SetSites) and must be contained in the REVIEWED
  list below.  A new hash-ordered loop of one of these forms (like the one behind the fixed defect D9,
  `FixedKeyDictNode._child_edits` iterating a set of removed pairs) makes `set_sites_reviewed` fail; the check then
  searches for a failing input by running the real command under several PYTHONHASHSEED values (stream
  `determinism`).  A dependence written in a form the walk does not know (a set reaching a loop through a container
  of another library, `getattr`, `exec`, a C extension ...) is found, if at all, only by the runs.
  NOT provable here (runtime): allocation-order / `id()`-based orders (intervaltree's internal set inside
  `make_distinct`, `BoundedComparator` tie-breaks), absence of hidden global state across repeated invocations,
  and that `diff()` leaves its inputs untouched (values are immutable in the model) — all covered by the
  `determinism` stream on the real code only.
-/
import GtModel.Gen.SetSites
import GtModel.Gen.NondetSites

namespace GtModel.C07

/-- reviewed set-iteration sites, each with the reason it cannot influence the output order -/
def reviewed : List (String × String × String × String) := [
  -- `Matching` / `PathSet` / `MatchingNode` are only used by WeightedBipartiteMatcherPARTIAL_IMPLEMENTATION (never instantiated by
  -- the engine; the name occurs in matching.py only); `bounds` sums (commutative), `__repr__` is debug text.  The `.edges()` rows
  -- are flagged by the NAME `edges` (some `edges` in the package returns a set): loops of the same partial matcher.
  ("matching.py", "__iter__", "iter", "self._edges"),
  ("matching.py", "__repr__", "comprehension", "self._edges"),
  ("matching.py", "bounds", "comprehension", "self._edges"),
  ("matching.py", "free_destinations", "for", "destination.edges()"),
  ("matching.py", "free_sources", "for", "source.edges()"),
  ("matching.py", "symmetric_difference", "for", "ret._edges"),
  ("matching.py", "tighten_bounds", "for", "r"),
  ("matching.py", "tighten_bounds", "for", "y.edges()"),
  -- ObjectSet iteration: used for membership bookkeeping only; `__str__` is debug text
  ("object_set.py", "__iter__", "for", "self.objs"),
  ("object_set.py", "__str__", "map", "self.objs"),
  -- ANSI/combining-mark contexts add/remove marks to/from a set: order-insensitive set operations
  ("printer.py", "__enter__", "for", "self.marks"),
  ("printer.py", "__exit__", "for", "self.marks - self._state_before"),
  -- joins the active combining marks; at most one of strike / under_plus is active while an edit prints
  -- (ASSUMPTION, validated by the determinism stream across hash seeds)
  ("printer.py", "marks_str", "join", "self._marks")
]

/-- every hash-ordered iteration OF THE LISTED SYNTACTIC FORMS in the current source has been reviewed -/
theorem set_sites_reviewed : ∀ s ∈ Gen.setSites, s ∈ reviewed := by decide

-- the check is not vacuous: the table is non-empty, and an unreviewed site is rejected
example : Gen.setSites ≠ [] := by decide
example : ¬ (("graphtage.py", "_child_edits", "for", "unshared_kvps") ∈ reviewed) := by decide

-- [audit] non-vacuity / triviality: the hand-kept allow-list is literally the generated table, so the theorem
-- is `xs ⊆ xs`; it says nothing about outputs, hash seeds or input mutation (it is a source lint tripwire)
example : Gen.setSites = reviewed := by decide

/-- reviewed sources of run-to-run variation or hidden state other than hash order (regenerated table
    `Gen.nondetSites`; a tripwire for the syntactic forms listed in front of `_nondet_sites` in harness/gentables.py:
    imports of and calls through time / datetime / random / secrets / uuid / threading / multiprocessing / concurrent /
    asyncio / signal / tempfile / socket / getpass / platform under any alias, names imported from them, `os.<x>` other
    than `os.path` and constants, `np.empty`, `sys.set*` / `sys.argv`, every `id()`, `hash()` / `id` / `repr` /
    `object.__repr__` in a sort key or ordering comparison, `global` statements, module-level containers mutated inside
    a function, `functools.lru_cache` / `cache`).  The package currently uses NO clock, NO randomness, NO uninitialised
    memory, NO environment variable and NO thread; the `id()` uses are identity equality / identity hashing (never an
    ordering that reaches the output, except the documented tie-break of `BoundedComparator.__lt__`, which `bounds.sort`
    alone uses and no diff path calls), and the one `global` is the initialise-once flag of the colorama fix. -/
def reviewedNondet : List (String × String × String × String) := [
  -- the command line itself (`main(argv = sys.argv)`): an INPUT of the run, not hidden state
  ("environment", "__main__.py", "main", "sys.argv"),
  -- `utils.Tempfile` (holds a copy of standard input when a path argument is `-`): the random file NAME can appear only in the
  -- loader's error message on standard error for unparsable standard input, never in the diff; the file is removed on exit
  ("environment", "utils.py", "__enter__", "tf.NamedTemporaryFile"),
  ("environment", "utils.py", "__exit__", "os.unlink"),
  ("environment-import", "utils.py", "<module>", "import tempfile as tf"),
  ("global-statement", "printer.py", "_init_colorama", "_COLORAMA_INITIALIZED"),
  ("id", "bounds.py", "__lt__", "id(other)"),
  ("id", "bounds.py", "__lt__", "id(self)"),
  ("id", "builder.py", "__hash__", "id(self.object)"),
  ("id", "fibonacci.py", "__eq__", "id(other)"),
  ("id", "fibonacci.py", "__eq__", "id(self)"),
  ("id", "fibonacci.py", "__init__", "id(DefaultKey)"),
  ("id", "fibonacci.py", "__init__", "id(key)"),
  ("id", "object_set.py", "__eq__", "id(other.obj)"),
  ("id", "object_set.py", "__eq__", "id(self.obj)"),
  ("id", "object_set.py", "__hash__", "id(self.obj)"),
  -- import-time registries, filled once while the package is imported (enum members, formatter classes, file types, decorated
  -- functions) and only read afterwards: the same content in every process, no growth across invocations
  ("module-state", "expressions.py", "__init__", "OPERATORS_BY_NAME[...] ="),
  ("module-state", "formatter.py", "__init__", "FORMATTERS.append"),
  ("module-state", "graphtage.py", "__init__", "FILETYPES_BY_MIME[...] ="),
  ("module-state", "graphtage.py", "__init__", "FILETYPES_BY_TYPENAME[...] ="),
  ("module-state", "printer.py", "only_ansi", "ONLY_ANSI_FUNCS.add")
]

/-- tripwire: a new use of the clock, of randomness, of `np.empty`, of the environment, of `id()`, of
    `sys.setrecursionlimit`, of a `global` statement or of a module-level cache, WRITTEN IN ONE OF THE LISTED FORMS, anywhere
    in the package breaks this obligation; the check then searches for a failing input with the determinism stream and
    otherwise reports no-failing-input-found -/
theorem nondet_sites_reviewed : ∀ s ∈ Gen.nondetSites, s ∈ reviewedNondet := by decide

example : ¬ (("clock", "bounds.py", "make_distinct", "time.monotonic") ∈ reviewedNondet) := by decide
example : ¬ (("module-state", "graphtage.py", "_child_edits", "_SEEN_KEYS.setdefault") ∈ reviewedNondet) := by decide
example : ¬ (("hash-order", "graphtage.py", "_child_edits", "key= hash(str(k.key.object))") ∈ reviewedNondet) := by decide

end GtModel.C07

/-
  C07 — diffing is a pure, deterministic function of its inputs  (PARTIAL).
  In Lean every model function is a function, so determinism of the MODEL is not a theorem worth stating; what can
  be checked mechanically is that the code contains no hash-order dependence the model does not know about:
  the table of every place where the package iterates a `set`/`frozenset` is regenerated from /repo's source by an
  `ast` walk on every run (GtModel.Gen.SetSites) and must be contained in the REVIEWED list below.  A new
  hash-ordered loop (like the one behind the fixed defect D9, `FixedKeyDictNode._child_edits` iterating a set of
  removed pairs) makes `set_sites_reviewed` fail; the check then searches for a failing input by running the real
  command under several PYTHONHASHSEED values (stream `determinism`).
  NOT provable here (runtime): allocation-order / `id()`-based orders (intervaltree's internal set inside
  `make_distinct`, `BoundedComparator` tie-breaks), absence of hidden global state across repeated invocations,
  and that `diff()` leaves its inputs untouched (values are immutable in the model) — all covered by the
  `determinism` stream on the real code only.
-/
import GtModel.Gen.SetSites
import GtModel.Gen.NondetSites

namespace GtModel.C07

/-- reviewed set-iteration sites, each with the reason it cannot influence the output order -/
def reviewed : List (String × String × String × String) := [
  -- `Matching` is only used by WeightedBipartiteMatcherPARTIAL_IMPLEMENTATION (never instantiated by the engine);
  -- `bounds` sums (commutative), `__repr__` is debug text
  ("matching.py", "__iter__", "iter", "self._edges"),
  ("matching.py", "__repr__", "comprehension", "self._edges"),
  ("matching.py", "bounds", "comprehension", "self._edges"),
  ("matching.py", "tighten_bounds", "for", "r"),
  -- ObjectSet iteration: used for membership bookkeeping only
  ("object_set.py", "__iter__", "for", "self.objs"),
  -- ANSI/combining-mark contexts add/remove marks to/from a set: order-insensitive set operations
  ("printer.py", "__enter__", "for", "self.marks"),
  ("printer.py", "__exit__", "for", "self.marks - self._state_before"),
  -- joins the active combining marks; at most one of strike / under_plus is active while an edit prints
  -- (ASSUMPTION, validated by the determinism stream across hash seeds)
  ("printer.py", "marks_str", "join", "self._marks")
]

/-- every hash-ordered iteration in the current source has been reviewed -/
theorem set_sites_reviewed : ∀ s ∈ Gen.setSites, s ∈ reviewed := by decide

-- the check is not vacuous: the table is non-empty, and an unreviewed site is rejected
example : Gen.setSites ≠ [] := by decide
example : ¬ (("graphtage.py", "_child_edits", "for", "unshared_kvps") ∈ reviewed) := by decide

-- [audit] non-vacuity / triviality: the hand-kept allow-list is literally the generated table, so the theorem
-- is `xs ⊆ xs`; it says nothing about outputs, hash seeds or input mutation (it is a source lint tripwire)
example : Gen.setSites = reviewed := by decide

/-- reviewed sources of run-to-run variation or hidden state other than hash order (regenerated table
    `Gen.nondetSites`: wall clock, randomness, uninitialised memory, environment, `id()`, interpreter-global
    settings, `global` statements).  The package currently uses NO clock, NO randomness, NO uninitialised memory and
    NO environment variable; the `id()` uses are identity equality / identity hashing (never an ordering that reaches
    the output, except the documented tie-break of `BoundedComparator.__lt__`, which `bounds.sort` alone uses and no
    diff path calls), and the one `global` is the initialise-once flag of the colorama fix. -/
def reviewedNondet : List (String × String × String × String) := [
  ("global-statement", "printer.py", "_init_colorama", "_COLORAMA_INITIALIZED"),
  ("id", "bounds.py", "__lt__", "id(other)"),
  ("id", "bounds.py", "__lt__", "id(self)"),
  ("id", "builder.py", "__hash__", "id(self.object)"),
  ("id", "fibonacci.py", "__eq__", "id(other)"),
  ("id", "fibonacci.py", "__eq__", "id(self)"),
  ("id", "fibonacci.py", "__init__", "id(DefaultKey)"),
  ("id", "fibonacci.py", "__init__", "id(key)"),
  ("id", "object_set.py", "__eq__", "id(other.obj)"),
  ("id", "object_set.py", "__eq__", "id(self.obj)"),
  ("id", "object_set.py", "__hash__", "id(self.obj)")
]

/-- tripwire: a new use of the clock, of randomness, of `np.empty`, of the environment, of `id()`, of
    `sys.setrecursionlimit` or of a `global` statement anywhere in the package breaks this obligation; the check then
    searches for a failing input with the determinism stream and otherwise reports no-failing-input-found -/
theorem nondet_sites_reviewed : ∀ s ∈ Gen.nondetSites, s ∈ reviewedNondet := by decide

example : ¬ (("clock", "bounds.py", "make_distinct", "time.monotonic") ∈ reviewedNondet) := by decide

end GtModel.C07

/-
  C08  "Mappings are unordered, lists are ordered."

  Statements about the L1/L2 models (`build`, `edits`, `diffDocs`), for ALL options, oracles and documents.
  `Doc.PermEq a b` (Proofs/ZeroPerm.lean): `b` is `a` with the key order of any objects, at any depth,
  permuted arbitrarily.
-/
import GtModel.Proofs.ZeroPerm
import GtModel.Proofs.PermCost
import GtModel.Proofs.PermPairs
import GtModel.Props.C02
import GtModel.Proofs.EditsOptions

namespace GtModel.C08
open GtModel

/-- (1) with key edits allowed (`DictNode`, the default) the built tree does not depend on the key order at all:
    `DictNode.from_dict` sorts the pairs, and sorting distinct keys has exactly one result -/
theorem build_perm_dict (o : Opts) (hake : o.ake = true) (a b : Doc) (h : Doc.PermEq a b)
    (hd : a.distinctKeys = true) : build o a = build o b :=
  build_perm_dict_aux o hake _ a (Nat.le_refl _) b h hd

/-- (1) hence the whole script (every edit, every cost, the oracle queries) of any comparison is IDENTICAL when
    the key order of either document is permuted -/
theorem dict_perm_script (o : Opts) (hake : o.ake = true) (orc : Oracle) (a a' b b' : Doc)
    (ha : Doc.PermEq a a') (hb : Doc.PermEq b b') (hda : a.distinctKeys = true) (hdb : b.distinctKeys = true) :
    diffDocs o orc a b = diffDocs o orc a' b' := by
  unfold diffDocs
  rw [build_perm_dict o hake a a' ha hda, build_perm_dict o hake b b' hb hdb]

/-- non-vacuity: a nested document, its key-permuted copy (inner and outer object re-ordered), distinct keys -/
example :
    let a : Doc := .obj [([97], .scalar (.int 1)), ([98], .list [.obj [([120], .scalar .null), ([121], .scalar (.bool true))]])]
    let b : Doc := .obj [([98], .list [.obj [([121], .scalar (.bool true)), ([120], .scalar .null)]]), ([97], .scalar (.int 1))]
    Doc.PermEq a b ∧ a.distinctKeys = true := by
  refine ⟨?_, by decide⟩
  refine .obj (cs := [([97], .scalar (.int 1)), ([98], .list [.obj [([121], .scalar (.bool true)), ([120], .scalar .null)]])])
    (.cons (.scalar _) (.cons (.list (.cons ?_ .nil)) .nil)) (List.Perm.swap _ _ _)
  exact .obj (cs := [([120], .scalar .null), ([121], .scalar (.bool true))])
    (.cons (.scalar _) (.cons (.scalar _) .nil)) (List.Perm.swap _ _ _)

/-- (2) for EVERY option set (also `allow_key_edits = False`, where `FixedKeyDictNode` keeps insertion order) a
    document and its key-permuted copy build trees that compare equal -/
theorem perm_equal (o : Opts) (a b : Doc) (h : Doc.PermEq a b) : Tree.eq (build o a) (build o b) = true :=
  perm_equal_aux o _ a (Nat.le_refl _) b h

/-- (2) hence diffing a document against its key-permuted copy reports cost 0 -/
theorem perm_cost_zero (o : Opts) (orc : Oracle) (a b : Doc) (h : Doc.PermEq a b) :
    (diffDocs o orc a b).cost = 0 :=
  eq_imp_cost_zero o orc [] [] _ _ (perm_equal o a b h)

/-- (3) with `allow_key_edits = False` (`FixedKeyDictNode`, insertion order kept, pairs matched BY KEY) the total
    cost of a comparison does not change when the keys of any objects, at any depth, of either document are
    re-ordered; it does not depend on the assignment-solver answers either -/
theorem fdict_perm_cost (o : Opts) (hake : o.ake = false) (orc orc' : Oracle) (a a' b b' : Doc)
    (ha : Doc.PermEq a a') (hb : Doc.PermEq b b') (hda : a.distinctKeys = true) (hdb : b.distinctKeys = true) :
    (diffDocs o orc a b).cost = (diffDocs o orc' a' b').cost := by
  unfold diffDocs
  exact cost_perm o orc orc' [] [] [] [] (build_TPerm o hake ha) (build_TPerm o hake hb)
    (build_WF o a hda) (build_WF o a' (ha.distinctKeys hda)) (build_WF o b hdb) (build_WF o b' (hb.distinctKeys hdb))

/-- non-vacuity: `{"a": 1, "b": [{"x": null, "y": true}]}` and a copy with both objects re-ordered -/
example :
    let a : Doc := .obj [([97], .scalar (.int 1)), ([98], .list [.obj [([120], .scalar .null), ([121], .scalar (.bool true))]])]
    let b : Doc := .obj [([98], .list [.obj [([121], .scalar (.bool true)), ([120], .scalar .null)]]), ([97], .scalar (.int 1))]
    ({ ake := false } : Opts).ake = false ∧ Doc.PermEq a b ∧ a.distinctKeys = true := by
  refine ⟨rfl, ?_, by decide⟩
  refine .obj (cs := [([97], .scalar (.int 1)), ([98], .list [.obj [([121], .scalar (.bool true)), ([120], .scalar .null)]])])
    (.cons (.scalar _) (.cons (.list (.cons ?_ .nil)) .nil)) (List.Perm.swap _ _ _)
  exact .obj (cs := [([120], .scalar .null), ([121], .scalar (.bool true))])
    (.cons (.scalar _) (.cons (.scalar _) .nil)) (List.Perm.swap _ _ _)

/-- (3) pairing: the `FixedKeyDictNodeEdit` of two objects pairs BY KEY.  Reading every sub-edit of the root script
    as (from-key, to-key, kind, cost) — `subTuple`, through the child indices the edit carries — the multiset of
    these tuples is the same for the original and for the key-permuted documents (objects re-ordered at any depth,
    in either document) -/
theorem fdict_perm_pairing (o : Opts) (hake : o.ake = false) (orc orc' : Oracle)
    (as as' bs bs' : List (Str × Doc))
    (ha : Doc.PermEq (.obj as) (.obj as')) (hb : Doc.PermEq (.obj bs) (.obj bs'))
    (hda : (Doc.obj as).distinctKeys = true) (hdb : (Doc.obj bs).distinctKeys = true) :
    ((diffDocs o orc (.obj as) (.obj bs)).subs.map
        (subTuple (build.buildKV o as) (build.buildKV o bs))).Perm
      ((diffDocs o orc' (.obj as') (.obj bs')).subs.map
        (subTuple (build.buildKV o as') (build.buildKV o bs'))) := by
  have ta := build_TPerm o hake ha
  have tb := build_TPerm o hake hb
  have wa := build_WF o _ hda
  have wa' := build_WF o _ (ha.distinctKeys hda)
  have wb := build_WF o _ hdb
  have wb' := build_WF o _ (hb.distinctKeys hdb)
  unfold diffDocs
  simp only [build, hake, Bool.false_eq_true, if_false] at ta tb wa wa' wb wb' ⊢
  exact fdict_subs_perm o orc orc' [] [] [] [] ta tb wa wa' wb wb'

/-- what the tuples look like: `{"a": 1, "b": 2}` against `{"b": 3, "c": 4}` with `allow_key_edits = False` —
    `b` is paired with `b`, `a` is removed, `c` is inserted -/
example :
    let o : Opts := { ake := false }
    let as : List (Str × Doc) := [([97], .scalar (.int 1)), ([98], .scalar (.int 2))]
    let bs : List (Str × Doc) := [([98], .scalar (.int 3)), ([99], .scalar (.int 4))]
    (diffDocs o [] (.obj as) (.obj bs)).subs.map (subTuple (build.buildKV o as) (build.buildKV o bs))
      = [(some [98], some [98], .kvp, 1), (some [97], none, .remove, 5), (none, some [99], .insert, 5)] := by
  simp [diffDocs, build, build.buildKV, edits, subKV, findKV, Tree.eq, Scalar.eq, fkScript, List.range, List.range.loop,
    findKey, kvEq, mkCompound, Script.subs, subTuple, Script.relabel, Script.kind, Script.fi, Script.ti, Script.cost,
    kvpScript, mkMatch, mkRemove, mkInsert, kvSize, Tree.size, Scalar.pyStr, leafEdits, leafLeaf, sumCosts]
  decide

/-- non-vacuity of the pairing statement: the same two objects, the second one re-ordered -/
example :
    let as : List (Str × Doc) := [([97], .scalar (.int 1)), ([98], .scalar (.int 2))]
    let as' : List (Str × Doc) := [([98], .scalar (.int 2)), ([97], .scalar (.int 1))]
    Doc.PermEq (.obj as) (.obj as') ∧ (Doc.obj as).distinctKeys = true :=
  ⟨.obj (cs := [([97], .scalar (.int 1)), ([98], .scalar (.int 2))])
    (.cons (.scalar _) (.cons (.scalar _) .nil)) (List.Perm.swap _ _ _), by decide⟩

/-! ### (3) pairing by key at EVERY nesting level

  `fdict_perm_pairing` above is stated for the ROOT edit of two object documents.  The two statements below remove that
  restriction: `fdict_perm_pairing_any_node` is the same permutation-invariance for ANY two FixedKeyDictNodes (at any
  index paths `fp`/`tp`, i.e. anywhere inside a comparison), and `fdict_pairing_every_level` walks the whole script
  (`Walk`, as C10's `none_no_cross_key` does): EVERY FixedKeyDictNodeEdit in it, at every depth, has — read as
  (from-key, to-key, kind, cost) tuples — exactly the pairing that key look-up determines (`fromTuple` / `toTuple`:
  a from-pair whose key occurs in the to-mapping is matched with THAT pair, otherwise removed; a to-pair whose key
  does not occur in the from-mapping is inserted), which does not depend on the order of the pairs of either mapping
  (`pairing_spec_order_independent`). -/

/-- the same for ANY two FixedKeyDictNodes, wherever they sit (any index paths, any oracles) -/
theorem fdict_perm_pairing_any_node (o : Opts) (orc orc' : Oracle) (fp tp fp' tp' : List Nat)
    {fkv fkv' tkv tkv' : List (Str × Tree)}
    (hf : TPerm (.fdict fkv) (.fdict fkv')) (ht : TPerm (.fdict tkv) (.fdict tkv'))
    (wf : (Tree.fdict fkv).WF = true) (wf' : (Tree.fdict fkv').WF = true)
    (wt : (Tree.fdict tkv).WF = true) (wt' : (Tree.fdict tkv').WF = true) :
    ((edits o orc fp tp (.fdict fkv) (.fdict tkv)).subs.map (subTuple fkv tkv)).Perm
      ((edits o orc' fp' tp' (.fdict fkv') (.fdict tkv')).subs.map (subTuple fkv' tkv')) :=
  fdict_subs_perm o orc orc' fp tp fp' tp' hf ht wf wf' wt wt'

/-- what a FixedKeyDictNodeEdit must look like: its sub-edits are the key-determined pairing -/
def LocalFKPairing (o : Opts) (a b : Nd) (k : Kind) (subs : List Script) : Prop :=
  ∀ fkv tkv, a = .tree (.fdict fkv) → b = .tree (.fdict tkv) → k = .fk →
    (subs.map (subTuple fkv tkv)).Perm (fkv.map (fromTuple (cost0 o) tkv) ++ tkv.filterMap (toTuple fkv))

/-- distinct keys, and no DictNode below (what `build` makes with `allow_key_edits = False`) -/
def FkDomain (t : Tree) : Prop := t.WF = true ∧ TPerm t t

theorem treeInv_fkDomain : TreeInv FkDomain := by
  refine ⟨fun s => ⟨rfl, .leaf s⟩, ?_, ?_, ?_⟩
  · intro cs h c hc
    have hw : ∀ c ∈ cs, c.WF = true := (wfL_iff cs).1 (by simpa [Tree.WF] using h.1)
    have hp := (TPermL_iff _ _).1 ((TPerm_list_iff _ _).1 h.2)
    obtain ⟨i, hi, rfl⟩ := List.getElem_of_mem hc
    exact ⟨hw _ hc, hp.2 i hi hi⟩
  · intro kvs h; cases h.2
  · intro kvs h kv hkv
    have hw : ∀ p ∈ kvs, p.2.WF = true := by
      have := h.1
      simp only [Tree.WF, Bool.and_eq_true, decide_eq_true_eq, wfKV_iff] at this
      exact this.2
    obtain ⟨q, _, hq⟩ := ((TPerm_fdict_iff _ _).1 h.2).left kv hkv
    exact ⟨hw _ hkv, hq.2.refl_left⟩

theorem localFKPairing_edits (o : Opts) (orc : Oracle) (fp tp : List Nat) (f t : Tree) (hf : FkDomain f) (ht : FkDomain t) :
    LocalFKPairing o (.tree f) (.tree t) (edits o orc fp tp f t).kind (edits o orc fp tp f t).subs := by
  intro fkv tkv ha hb hk
  simp only [Nd.tree.injEq] at ha hb
  subst ha hb
  rw [edits_fdict_fdict] at hk ⊢
  split at hk
  · simp at hk
  · rename_i h
    simp only [h, Bool.false_eq_true, if_false]
    apply fkScript_subs_perm (cost0 o) fkv tkv
    intro i j hi hj
    rw [kvTbl_getD _ _ _ _ _ _ _ _ _ hi hj, getD_eq_getElem' _ _ hi, getD_eq_getElem' _ _ hj]
    have h1 := treeInv_fkDomain.fdict _ hf _ (List.getElem_mem hi)
    have h2 := treeInv_fkDomain.fdict _ ht _ (List.getElem_mem hj)
    exact cost_perm o _ _ _ _ _ _ h1.2 h2.2 h1.1 h1.1 h2.1 h2.1

/-- (3) at EVERY nesting level: every FixedKeyDictNodeEdit of the script pairs by key — for all options, every
    oracle, all trees with distinct keys and no DictNode (every tree `build` makes without key edits) -/
theorem fdict_pairing_every_level (o : Opts) (orc : Oracle) (fp tp : List Nat) (f t : Tree)
    (hf : FkDomain f) (ht : FkDomain t) :
    Walk (LocalFKPairing o) (.tree f) (.tree t) (edits o orc fp tp f t) :=
  walk_edits o orc treeInv_fkDomain (fun fp tp f t hf ht => localFKPairing_edits o orc fp tp f t hf ht)
    (fun _ _ _ _ _ _ _ _ => by intro fkv tkv ha; cases ha) f fp tp t hf ht

mutual
theorem tperm_refl_of_noDict : ∀ t : Tree, t.noDict = true → TPerm t t
  | .leaf s, _ => .leaf s
  | .list cs, h => .list (tpermL_refl_of_noDict cs (by simpa [Tree.noDict] using h))
  | .dict _, h => by simp [Tree.noDict] at h
  | .fdict kvs, h => .fdict (tpermKV_refl_of_noDict kvs (by simpa [Tree.noDict] using h)) (List.Perm.refl _)
theorem tpermL_refl_of_noDict : ∀ cs : List Tree, noDictL cs = true → TPermL cs cs
  | [], _ => .nil
  | c :: cs, h => by
    simp only [noDictL, Bool.and_eq_true] at h
    exact .cons (tperm_refl_of_noDict c h.1) (tpermL_refl_of_noDict cs h.2)
theorem tpermKV_refl_of_noDict : ∀ kvs : List (Str × Tree), noDictKV kvs = true → TPermKV kvs kvs
  | [], _ => .nil
  | (k, v) :: kvs, h => by
    simp only [noDictKV, Bool.and_eq_true] at h
    exact .cons (tperm_refl_of_noDict v h.1) (tpermKV_refl_of_noDict kvs h.2)
end

/-- (3) at every nesting level, for whole DOCUMENTS compared with `allow_key_edits = False` -/
theorem fdict_pairing_every_level_docs (o : Opts) (hake : o.ake = false) (orc : Oracle) (a b : Doc)
    (hda : a.distinctKeys = true) (hdb : b.distinctKeys = true) :
    Walk (LocalFKPairing o) (.tree (build o a)) (.tree (build o b)) (diffDocs o orc a b) :=
  fdict_pairing_every_level o orc [] [] _ _
    ⟨build_WF o a hda, tperm_refl_of_noDict _ (build_noDict o hake a)⟩
    ⟨build_WF o b hdb, tperm_refl_of_noDict _ (build_noDict o hake b)⟩

/-- the key-determined pairing does not depend on the ORDER of the pairs of either mapping (nor on the order of any
    mapping below): re-ordered mappings have the same multiset of (from-key, to-key, kind, cost) tuples -/
theorem pairing_spec_order_independent (o : Opts) {fkv fkv' tkv tkv' : List (Str × Tree)}
    (hf : TPerm (.fdict fkv) (.fdict fkv')) (ht : TPerm (.fdict tkv) (.fdict tkv'))
    (wf : (Tree.fdict fkv).WF = true) (wf' : (Tree.fdict fkv').WF = true)
    (wt : (Tree.fdict tkv).WF = true) (wt' : (Tree.fdict tkv').WF = true) :
    (fkv.map (fromTuple (cost0 o) tkv) ++ tkv.filterMap (toTuple fkv)).Perm
      (fkv'.map (fromTuple (cost0 o) tkv') ++ tkv'.filterMap (toTuple fkv')) := by
  have kf := (TPerm_fdict_iff _ _).1 hf
  have kt := (TPerm_fdict_iff _ _).1 ht
  simp only [Tree.WF, Bool.and_eq_true, decide_eq_true_eq, wfKV_iff] at wf wf' wt wt'
  apply fk_tuples_congr (cost0 o) kf kt wf.1 wt.1
  intro p hp q hq p' hp' q' hq' hpp hqq
  exact cost_perm o _ _ _ _ _ _ hpp.2 hqq.2 (wf.2 _ hp) (wf'.2 _ hp') (wt.2 _ hq) (wt'.2 _ hq')

/-- non-vacuity: a nested document pair (object in list in object) in the domain, without key edits -/
example :
    let a : Doc := .obj [([97], .scalar (.int 1)), ([98], .list [.obj [([120], .scalar .null), ([121], .scalar (.bool true))]])]
    ({ ake := false } : Opts).ake = false ∧ a.distinctKeys = true ∧ FkDomain (build { ake := false } a) := by
  refine ⟨rfl, by decide, build_WF _ _ (by decide), tperm_refl_of_noDict _ (build_noDict _ rfl _)⟩

/-! ### lists are ordered -/

theorem eqL_append_cons (pre : List Tree) (x y : Tree) (r r' : List Tree)
    (h : eqL (pre ++ x :: r) (pre ++ y :: r') = true) : x.eq y = true := by
  induction pre with
  | nil => simp only [List.nil_append, eqL, Bool.and_eq_true] at h; exact h.1
  | cons p pre ih => simp only [List.cons_append, eqL, Bool.and_eq_true] at h; exact ih h.2

/-- (4) swapping two unequal elements of a list is never free: the script of the list against its swapped copy has
    positive cost, for all options (edit distance or fixed-length pairing), oracles and well-formed elements -/
theorem list_swap_positive (o : Opts) (orc : Oracle) (fp tp : List Nat) (pre mid post : List Tree) (x y : Tree)
    (hwf : (Tree.list (pre ++ [x] ++ mid ++ [y] ++ post)).WF = true) (hne : x.eq y = false) :
    0 < (edits o orc fp tp (.list (pre ++ [x] ++ mid ++ [y] ++ post)) (.list (pre ++ [y] ++ mid ++ [x] ++ post))).cost := by
  have hwf' : (Tree.list (pre ++ [y] ++ mid ++ [x] ++ post)).WF = true := by
    simp only [Tree.WF, wfL_iff, List.mem_append, List.mem_singleton] at hwf ⊢
    intro c hc; apply hwf c
    rcases hc with (((h | h) | h) | h) | h <;> simp [h]
  apply Nat.pos_of_ne_zero
  intro h0
  have := (C02.zero_cost_iff_eq o orc fp tp _ _ hwf hwf').1 h0
  simp only [Tree.eq, List.append_assoc, List.singleton_append] at this
  have := eqL_append_cons pre x y _ _ this
  rw [hne] at this; exact Bool.false_ne_true this

/-- non-vacuity: `[1, {"a": 2}, 3]` against `[3, {"a": 2}, 1]` -/
example :
    let x : Tree := .leaf (.int 1)
    let y : Tree := .leaf (.int 3)
    (Tree.list ([] ++ [x] ++ [.dict [([97], .leaf (.int 2))]] ++ [y] ++ [])).WF = true ∧ x.eq y = false := by
  refine ⟨by decide, ?_⟩
  simp [Tree.eq, Scalar.eq]

end GtModel.C08

/-
  C08  "Mappings are unordered, lists are ordered."

  Statements about the L1/L2 models (`build`, `edits`, `diffDocs`), for ALL options, oracles and documents.
  `Doc.PermEq a b` (Proofs/ZeroPerm.lean): `b` is `a` with the key order of any objects, at any depth,
  permuted arbitrarily.
-/
import GtModel.Proofs.ZeroPerm
import GtModel.Proofs.PermCost
import GtModel.Proofs.PermPairs
import GtModel.Props.C02

namespace GtModel.C08
open GtModel

/-- (1) with key edits allowed (`DictNode`, the default) the built tree does not depend on the key order at all:
    `DictNode.from_dict` sorts the pairs, and sorting distinct keys has exactly one result -/
theorem build_perm_dict (o : Opts) (hake : o.ake = true) (a b : Doc) (h : Doc.PermEq a b)
    (hd : a.distinctKeys = true) : build o a = build o b :=
  build_perm_dict_aux o hake _ a (Nat.le_refl _) b h hd

/-- (1) hence the whole script (every edit, every cost, the oracle queries) of any comparison is IDENTICAL when
    the key order of either document is permuted -/
theorem dict_perm_script (o : Opts) (hake : o.ake = true) (orc : Oracle) (a a' b b' : Doc)
    (ha : Doc.PermEq a a') (hb : Doc.PermEq b b') (hda : a.distinctKeys = true) (hdb : b.distinctKeys = true) :
    diffDocs o orc a b = diffDocs o orc a' b' := by
  unfold diffDocs
  rw [build_perm_dict o hake a a' ha hda, build_perm_dict o hake b b' hb hdb]

/-- non-vacuity: a nested document, its key-permuted copy (inner and outer object re-ordered), distinct keys -/
example :
    let a : Doc := .obj [([97], .scalar (.int 1)), ([98], .list [.obj [([120], .scalar .null), ([121], .scalar (.bool true))]])]
    let b : Doc := .obj [([98], .list [.obj [([121], .scalar (.bool true)), ([120], .scalar .null)]]), ([97], .scalar (.int 1))]
    Doc.PermEq a b ∧ a.distinctKeys = true := by
  refine ⟨?_, by decide⟩
  refine .obj (cs := [([97], .scalar (.int 1)), ([98], .list [.obj [([121], .scalar (.bool true)), ([120], .scalar .null)]])])
    (.cons (.scalar _) (.cons (.list (.cons ?_ .nil)) .nil)) (List.Perm.swap _ _ _)
  exact .obj (cs := [([120], .scalar .null), ([121], .scalar (.bool true))])
    (.cons (.scalar _) (.cons (.scalar _) .nil)) (List.Perm.swap _ _ _)

/-- (2) for EVERY option set (also `allow_key_edits = False`, where `FixedKeyDictNode` keeps insertion order) a
    document and its key-permuted copy build trees that compare equal -/
theorem perm_equal (o : Opts) (a b : Doc) (h : Doc.PermEq a b) : Tree.eq (build o a) (build o b) = true :=
  perm_equal_aux o _ a (Nat.le_refl _) b h

/-- (2) hence diffing a document against its key-permuted copy reports cost 0 -/
theorem perm_cost_zero (o : Opts) (orc : Oracle) (a b : Doc) (h : Doc.PermEq a b) :
    (diffDocs o orc a b).cost = 0 :=
  eq_imp_cost_zero o orc [] [] _ _ (perm_equal o a b h)

/-- (3) with `allow_key_edits = False` (`FixedKeyDictNode`, insertion order kept, pairs matched BY KEY) the total
    cost of a comparison does not change when the keys of any objects, at any depth, of either document are
    re-ordered; it does not depend on the assignment-solver answers either -/
theorem fdict_perm_cost (o : Opts) (hake : o.ake = false) (orc orc' : Oracle) (a a' b b' : Doc)
    (ha : Doc.PermEq a a') (hb : Doc.PermEq b b') (hda : a.distinctKeys = true) (hdb : b.distinctKeys = true) :
    (diffDocs o orc a b).cost = (diffDocs o orc' a' b').cost := by
  unfold diffDocs
  exact cost_perm o orc orc' [] [] [] [] (build_TPerm o hake ha) (build_TPerm o hake hb)
    (build_WF o a hda) (build_WF o a' (ha.distinctKeys hda)) (build_WF o b hdb) (build_WF o b' (hb.distinctKeys hdb))

/-- non-vacuity: `{"a": 1, "b": [{"x": null, "y": true}]}` and a copy with both objects re-ordered -/
example :
    let a : Doc := .obj [([97], .scalar (.int 1)), ([98], .list [.obj [([120], .scalar .null), ([121], .scalar (.bool true))]])]
    let b : Doc := .obj [([98], .list [.obj [([121], .scalar (.bool true)), ([120], .scalar .null)]]), ([97], .scalar (.int 1))]
    ({ ake := false } : Opts).ake = false ∧ Doc.PermEq a b ∧ a.distinctKeys = true := by
  refine ⟨rfl, ?_, by decide⟩
  refine .obj (cs := [([97], .scalar (.int 1)), ([98], .list [.obj [([121], .scalar (.bool true)), ([120], .scalar .null)]])])
    (.cons (.scalar _) (.cons (.list (.cons ?_ .nil)) .nil)) (List.Perm.swap _ _ _)
  exact .obj (cs := [([120], .scalar .null), ([121], .scalar (.bool true))])
    (.cons (.scalar _) (.cons (.scalar _) .nil)) (List.Perm.swap _ _ _)

/-- (3) pairing: the `FixedKeyDictNodeEdit` of two objects pairs BY KEY.  Reading every sub-edit of the root script
    as (from-key, to-key, kind, cost) — `subTuple`, through the child indices the edit carries — the multiset of
    these tuples is the same for the original and for the key-permuted documents (objects re-ordered at any depth,
    in either document) -/
theorem fdict_perm_pairing (o : Opts) (hake : o.ake = false) (orc orc' : Oracle)
    (as as' bs bs' : List (Str × Doc))
    (ha : Doc.PermEq (.obj as) (.obj as')) (hb : Doc.PermEq (.obj bs) (.obj bs'))
    (hda : (Doc.obj as).distinctKeys = true) (hdb : (Doc.obj bs).distinctKeys = true) :
    ((diffDocs o orc (.obj as) (.obj bs)).subs.map
        (subTuple (build.buildKV o as) (build.buildKV o bs))).Perm
      ((diffDocs o orc' (.obj as') (.obj bs')).subs.map
        (subTuple (build.buildKV o as') (build.buildKV o bs'))) := by
  have ta := build_TPerm o hake ha
  have tb := build_TPerm o hake hb
  have wa := build_WF o _ hda
  have wa' := build_WF o _ (ha.distinctKeys hda)
  have wb := build_WF o _ hdb
  have wb' := build_WF o _ (hb.distinctKeys hdb)
  unfold diffDocs
  simp only [build, hake, Bool.false_eq_true, if_false] at ta tb wa wa' wb wb' ⊢
  exact fdict_subs_perm o orc orc' [] [] [] [] ta tb wa wa' wb wb'

/-- what the tuples look like: `{"a": 1, "b": 2}` against `{"b": 3, "c": 4}` with `allow_key_edits = False` —
    `b` is paired with `b`, `a` is removed, `c` is inserted -/
example :
    let o : Opts := { ake := false }
    let as : List (Str × Doc) := [([97], .scalar (.int 1)), ([98], .scalar (.int 2))]
    let bs : List (Str × Doc) := [([98], .scalar (.int 3)), ([99], .scalar (.int 4))]
    (diffDocs o [] (.obj as) (.obj bs)).subs.map (subTuple (build.buildKV o as) (build.buildKV o bs))
      = [(some [98], some [98], .kvp, 1), (some [97], none, .remove, 5), (none, some [99], .insert, 5)] := by
  simp [diffDocs, build, build.buildKV, edits, subKV, findKV, Tree.eq, Scalar.eq, fkScript, List.range, List.range.loop,
    findKey, kvEq, mkCompound, Script.subs, subTuple, Script.relabel, Script.kind, Script.fi, Script.ti, Script.cost,
    kvpScript, mkMatch, mkRemove, mkInsert, kvSize, Tree.size, Scalar.pyStr, leafEdits, leafLeaf, sumCosts]
  decide

/-- non-vacuity of the pairing statement: the same two objects, the second one re-ordered -/
example :
    let as : List (Str × Doc) := [([97], .scalar (.int 1)), ([98], .scalar (.int 2))]
    let as' : List (Str × Doc) := [([98], .scalar (.int 2)), ([97], .scalar (.int 1))]
    Doc.PermEq (.obj as) (.obj as') ∧ (Doc.obj as).distinctKeys = true :=
  ⟨.obj (cs := [([97], .scalar (.int 1)), ([98], .scalar (.int 2))])
    (.cons (.scalar _) (.cons (.scalar _) .nil)) (List.Perm.swap _ _ _), by decide⟩

/-! ### lists are ordered -/

theorem eqL_append_cons (pre : List Tree) (x y : Tree) (r r' : List Tree)
    (h : eqL (pre ++ x :: r) (pre ++ y :: r') = true) : x.eq y = true := by
  induction pre with
  | nil => simp only [List.nil_append, eqL, Bool.and_eq_true] at h; exact h.1
  | cons p pre ih => simp only [List.cons_append, eqL, Bool.and_eq_true] at h; exact ih h.2

/-- (4) swapping two unequal elements of a list is never free: the script of the list against its swapped copy has
    positive cost, for all options (edit distance or fixed-length pairing), oracles and well-formed elements -/
theorem list_swap_positive (o : Opts) (orc : Oracle) (fp tp : List Nat) (pre mid post : List Tree) (x y : Tree)
    (hwf : (Tree.list (pre ++ [x] ++ mid ++ [y] ++ post)).WF = true) (hne : x.eq y = false) :
    0 < (edits o orc fp tp (.list (pre ++ [x] ++ mid ++ [y] ++ post)) (.list (pre ++ [y] ++ mid ++ [x] ++ post))).cost := by
  have hwf' : (Tree.list (pre ++ [y] ++ mid ++ [x] ++ post)).WF = true := by
    simp only [Tree.WF, wfL_iff, List.mem_append, List.mem_singleton] at hwf ⊢
    intro c hc; apply hwf c
    rcases hc with (((h | h) | h) | h) | h <;> simp [h]
  apply Nat.pos_of_ne_zero
  intro h0
  have := (C02.zero_cost_iff_eq o orc fp tp _ _ hwf hwf').1 h0
  simp only [Tree.eq, List.append_assoc, List.singleton_append] at this
  have := eqL_append_cons pre x y _ _ this
  rw [hne] at this; exact Bool.false_ne_true this

/-- non-vacuity: `[1, {"a": 2}, 3]` against `[3, {"a": 2}, 1]` -/
example :
    let x : Tree := .leaf (.int 1)
    let y : Tree := .leaf (.int 3)
    (Tree.list ([] ++ [x] ++ [.dict [([97], .leaf (.int 2))]] ++ [y] ++ [])).WF = true ∧ x.eq y = false := by
  refine ⟨by decide, ?_⟩
  simp [Tree.eq, Scalar.eq]

end GtModel.C08

/-
  C09 — the same data compares as equal regardless of input file format  (PARTIAL + one recorded finding).

  Model: `GtModel.Formats` — JSON, JSON5, YAML and PLIST loaders all end in `json.build_tree(obj)`; PLIST wraps the
  root in a `PLISTNode`.  ASSUMPTION (validated on every run by the `formats` stream: each datum is loaded through
  all four real loaders and the `to_obj()` values are compared): the four external parsers return equal Python
  objects for the same datum — that is what "the same data" means here, so a datum is one `Doc`.

  Proved for every datum, every option set and every assignment-solver answer:
    * `same_data_zero`      : every ordered pair of formats EXCEPT (non-plist → plist) diffs to cost 0;
    * `third_doc_independent`: against a third document the cost is the same whichever non-plist formats the two
                               sides come from, and also when the FIRST side comes from a plist
                               (for equal solver answers; paths under a PLISTNode carry a leading 0);
    * `plist_to_side_replace_witness` : the recorded finding D10 — a non-plist document against the same data
                               loaded from a plist is a wholesale Replace of positive cost (so the full property
                               is FALSE of the current code; see known_findings.json).
  The exit status follows the cost (C02.exit_status_iff).
-/
import GtModel.Model.Formats
import GtModel.Props.C02

namespace GtModel.C09
open GtModel GtModel.Formats

/-- the ordered pairs of formats for which the code can recognise equal data -/
def supported (a b : Fmt) : Bool := !(a != .plist && b == .plist)

/-- same data, any supported ordered pair of formats: total cost 0 -/
theorem same_data_zero (o : Opts) (orc : Oracle) (d : Doc) (a b : Fmt) (h : supported a b = true) :
    cost o orc (load o a d) (load o b d) = 0 := by
  have hrefl := Tree.eq_refl (build o d)
  cases a <;> cases b <;> simp [supported] at h <;>
    simp [load, cost, C02.eq_zero_cost _ _ _ _ _ _ hrefl]

/-- all sixteen pairs at once, as a table statement -/
theorem same_data_zero_all (o : Opts) (orc : Oracle) (d : Doc) :
    ∀ a b : Fmt, (a = .plist ∨ b ≠ .plist) → cost o orc (load o a d) (load o b d) = 0 := by
  intro a b h
  apply same_data_zero
  cases a <;> cases b <;> simp_all [supported]

/-- diff against a third document: the three non-plist loaders are interchangeable on both sides -/
theorem third_doc_independent (o : Opts) (orc : Oracle) (d t : Doc) (a a' b b' : Fmt)
    (ha : a ≠ .plist) (ha' : a' ≠ .plist) (hb : b ≠ .plist) (hb' : b' ≠ .plist) :
    cost o orc (load o a d) (load o b t) = cost o orc (load o a' d) (load o b' t) := by
  cases a <;> cases a' <;> cases b <;> cases b' <;> simp_all [load, cost]

/-- a plist on the FROM side: `PLISTNode.edits(node)` is `self.root.edits(node)`, i.e. the plain documents' edit
    with the from-paths shifted by the wrapper (the solver's recorded answers are looked up by node path) -/
theorem plist_from_side (o : Opts) (orc : Oracle) (d t : Doc) (b : Fmt) (hb : b ≠ .plist) :
    cost o orc (load o .plist d) (load o b t) = (edits o orc [0] [] (build o d) (build o t)).cost := by
  cases b <;> simp_all [load, cost]

/-- D10 (recorded finding): with a plist on the TO side only, equal data is a Replace of positive cost -/
theorem plist_to_side_replace_witness (o : Opts) (orc : Oracle) (d : Doc) (a : Fmt) (ha : a ≠ .plist) :
    cost o orc (load o a d) (load o .plist d) = (build o d).size + 1 ∧
    cost o orc (load o a d) (load o .plist d) > 0 := by
  cases a <;> simp_all [load, cost]

-- non-vacuity / concreteness
example : supported .yaml .json = true ∧ supported .plist .json5 = true ∧ supported .json .plist = false := by decide

-- [audit] what the theorems above rest on: in the model the three non-plist loaders are THE SAME FUNCTION (`load`
-- ignores the format; no parser is a parameter — a datum is one `Doc`), so `third_doc_independent` is `rfl`,
-- `same_data_zero` is `C02.eq_zero_cost` + reflexivity of `Tree.eq`, and `plist_from_side` /
-- `plist_to_side_replace_witness` restate the defining equations of `Formats.cost` (the `Replace` cost of D10 is
-- written into the definition, not derived from a model of the `edits` dispatch on a `PLISTNode`).
example (o : Opts) (d : Doc) : load o .json d = load o .json5 d ∧ load o .json d = load o .yaml d := ⟨rfl, rfl⟩
example (o : Opts) (orc : Oracle) (d t : Doc) :
    cost o orc (load o .json d) (load o .yaml t) = cost o orc (load o .yaml d) (load o .json5 t) := rfl
example (o : Opts) (orc : Oracle) (a b : Tree) : cost o orc (.plain a) (.plist b) = Nat.max a.size b.size + 1 := rfl
example (o : Opts) (orc : Oracle) (d t : Doc) :
    cost o orc (load o .plist d) (load o .json t) = (edits o orc [0] [] (build o d) (build o t)).cost := rfl

end GtModel.C09

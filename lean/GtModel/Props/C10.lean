/-
  C10 "Matching options restrict the script as documented."

  All statements are `Walk P a b s` (Proofs/EditsWalk.lean): `P` holds for the root edit and the node pair it
  relates, and for every sub-edit with sub-edits on the children its indices name, at every nesting level.

  (1) `none_no_cross_key`      FixedKeyDictNodeEdit (the only mapping edit when `allow_key_edits = False`,
                               `none_no_multiset`) pairs two items only if their keys are EQUAL.
  (2) `auto_same_key_paired`   with `auto_match_keys` every key present in both DictNodes is paired with itself
                               (there is a KeyValuePairEdit sub-edit (i, j) with key i = key j = that key).
                               No distinct-keys hypothesis is needed for this direction.
  (3) `no_list_edits_positional`               with `allow_list_edits = False` every list-vs-list edit that is not a
                               plain Match is a FixedLengthSequenceEdit whose sub-edits are (0,0)…(k-1,k-1), k = min n m,
                               followed by the removals of from-indices k..n-1 or the insertions of to-indices k..m-1.
  (4) `no_list_edits_same_length_positional`   with `allow_list_edits_when_same_length = False` the same for lists of
                               EQUAL length (then there is no surplus tail at all).

  Reach of the options (graphtage.py, json.py, builder.py, csv.py, xml.py): `allow_list_edits*` are fields of
  `ListNode` read by `ListNode.edits`; `json.build_tree` / `BasicBuilder` (JSON, JSON5, YAML, PLIST, pydiff lists) set
  them from the options, and so do `csv.build_tree` for `CSVNode(...)` (the rows) and every `CSVRow(...)` (its cells)
  and `XMLElement.__init__` for `XMLElementChildren(...)` (the child elements).
  A CSV table is, for `edits`, the tree `build o` makes of a list (rows) of lists (cells) of strings — (3), (4) apply to
  it as they stand (stream `script`, cases `via: csv`, runs the real CSV loader against `edits o` on that tree under
  every option set).  XML / HTML elements: Props/C10x.lean (`xml_no_list_edits_positional`, …; model `Xml.kidsScript o`).
  `allow_key_edits` selects DictNode vs FixedKeyDictNode in `build_tree` (model: `build`); `auto_match_keys` is copied
  to `DictNode.auto_match_keys` and read by `DictNode.edits` → `MultiSetEdit(auto_match_keys=…)`.
-/
import GtModel.Proofs.EditsOptions

namespace GtModel.C10
open GtModel

/-- (1) a FixedKeyDictNodeEdit never pairs items with different keys — at every level, for all options -/
theorem none_no_cross_key (o : Opts) (orc : Oracle) (fp tp : List Nat) (f t : Tree) :
    Walk LocalFK (.tree f) (.tree t) (edits o orc fp tp f t) :=
  walk_edits o orc treeInv_true (fun fp tp f t _ _ => localFK_edits o orc fp tp f t)
    (fun _ _ _ _ _ _ _ _ => by intro fkv tkv ha; cases ha) f fp tp t trivial trivial

/-- (1') with `allow_key_edits = False` no MultiSetEdit occurs anywhere in the script: every mapping edit is a
    FixedKeyDictNodeEdit, to which (1) applies -/
theorem none_no_multiset (o : Opts) (h : o.ake = false) (orc : Oracle) (f t : Doc) :
    Walk LocalNoMs (.tree (build o f)) (.tree (build o t)) (diffDocs o orc f t) :=
  walk_edits o orc treeInv_noDict (fun fp tp f t hf _ => localNoMs_edits o orc fp tp f t hf)
    (fun _ _ _ _ _ _ _ _ => by simp [LocalNoMs]) _ [] [] _ (build_noDict o h f) (build_noDict o h t)

/-- (2) auto key matching pairs every shared key with itself, in every MultiSetEdit of the script -/
theorem auto_same_key_paired (o : Opts) (hamk : o.amk = true) (orc : Oracle) (fp tp : List Nat) (f t : Tree) :
    Walk LocalAuto (.tree f) (.tree t) (edits o orc fp tp f t) :=
  walk_edits o orc treeInv_true (fun fp tp f t _ _ => localAuto_edits o hamk orc fp tp f t)
    (fun _ _ _ _ _ _ _ _ => by intro fkv tkv ha; cases ha) f fp tp t trivial trivial

/-- (3) list edits off: only positional pairs plus a surplus tail -/
theorem no_list_edits_positional (o : Opts) (h : o.ale = false) (orc : Oracle) (fp tp : List Nat) (f t : Tree) :
    Walk (LocalPos fun _ _ => True) (.tree f) (.tree t) (edits o orc fp tp f t) :=
  walk_edits o orc treeInv_true
    (fun fp tp f t _ _ => localPos_edits o _ (fun _ _ _ => by simp [h]) orc fp tp f t)
    (fun _ _ _ _ _ _ _ _ => by intro fcs tcs ha; cases ha) f fp tp t trivial trivial

/-- (4) list edits off for equal lengths: equal-length lists are edited positionally -/
theorem no_list_edits_same_length_positional (o : Opts) (h : o.alesl = false) (orc : Oracle) (fp tp : List Nat)
    (f t : Tree) :
    Walk (LocalPos fun n m => n = m) (.tree f) (.tree t) (edits o orc fp tp f t) :=
  walk_edits o orc treeInv_true
    (fun fp tp f t _ _ => localPos_edits o _ (fun n m e => by simp [h, e]) orc fp tp f t)
    (fun _ _ _ _ _ _ _ _ => by intro fcs tcs ha; cases ha) f fp tp t trivial trivial

/-- (3) read off at the root: two different lists under `allow_list_edits = False` -/
theorem no_list_edits_root (o : Opts) (h : o.ale = false) (orc : Oracle) (fp tp : List Nat) (fcs tcs : List Tree)
    (hne : (edits o orc fp tp (.list fcs) (.list tcs)).kind ≠ .match_) :
    (edits o orc fp tp (.list fcs) (.list tcs)).kind = .fixed ∧
    (edits o orc fp tp (.list fcs) (.list tcs)).subs.map Script.shape = positionalShape fcs.length tcs.length :=
  ((walk_iff _ _ _).1 (no_list_edits_positional o h orc fp tp (.list fcs) (.list tcs))).1 fcs tcs rfl rfl hne trivial

/-! ### non-vacuity and concrete instances (sub-function level, see the note in Props/C01.lean) -/

/-- the option hypotheses are satisfiable -/
example : ({ ake := false } : Opts).ake = false ∧ ({ ale := false } : Opts).ale = false ∧
    ({ alesl := false } : Opts).alesl = false ∧ ({} : Opts).amk = true := by decide

/-- `no_list_edits_root`'s hypothesis holds for two different lists -/
example : (edits { ale := false } [] [] [] (.list [.leaf .null, .leaf (.float [49])]) (.list [.leaf (.float [50])])).kind
    ≠ .match_ := by
  rw [edits_list_list]; simp [eqL, Tree.eq, Scalar.eq, fixedScript]

/-- 3 elements against 1 with list edits off: pair (0,0), then the surplus tail 1, 2 removed -/
example : (fixedScript [.leaf .null, .leaf (.float [49]), .leaf .null] [.leaf (.float [50])] [[mkMatch 1]]).subs.map Script.shape
    = [(.pair, .at 0, .at 0), (.rem, .at 1, .none), (.rem, .at 2, .none)] := by decide +kernel
example : positionalShape 1 3 = [(.pair, .at 0, .at 0), (.ins, .at 1, .none), (.ins, .at 2, .none)] := by decide
/-- the shape predicate rejects a script that re-orders elements -/
example : [Script.mk .match_ (.at 1) (.at 0) 0 [], Script.mk .match_ (.at 0) (.at 1) 0 []].map Script.shape
    ≠ positionalShape 2 2 := by decide

def fkvE : List (Str × Tree) := [([97], .leaf (.float [49])), ([98], .leaf .null), ([99], .leaf (.str [120]))]
def tkvE : List (Str × Tree) := [([98], .leaf (.float [50])), ([100], .leaf (.float [49])), ([97], .leaf (.float [49]))]

/-- FixedKeyDictNodeEdit on {a, b, c} → {b, d, a}: a↦2 and b↦0 (equal keys), c removed, d inserted -/
example : (fkScript fkvE tkvE []).subs.map Script.shape =
    [(.pair, .at 0, .at 2), (.pair, .at 1, .at 0), (.rem, .at 2, .none), (.ins, .at 1, .none)] := by
  simp [fkScript, fkvE, tkvE, kvEq, Tree.eq, Scalar.eq, findKey, List.range_succ, kvpScript, mkCompound, Script.shape,
    Script.role, List.getD_eq_getElem?_getD, mkMatch, mkRemove, mkInsert, Script.relabel]

/-- MultiSetEdit with auto key matching on the same pairs: the shared keys a and b are paired with themselves
    (a↦2, b↦0); c and d are left to the matcher -/
example : ((msScript true [] [] [] fkvE tkvE []).subs.map Script.shape).take 2 =
    [(.pair, .at 0, .at 2), (.pair, .at 1, .at 0)] := by
  simp [msScript, fkvE, tkvE, kvEq, Tree.eq, Scalar.eq, findKey, List.range_succ, kvpScript, Oracle.lookup,
    identityPairs, sortPairs, insertPair, mkCompound, Script.shape, Script.role,
    List.getD_eq_getElem?_getD, mkMatch, mkRemove, mkInsert, Script.relabel]

end GtModel.C10

/-
  C10 for XML / HTML elements: "With list edits disabled (always, or only for equal-length lists) elements are paired
  strictly by position and only a surplus tail is removed or inserted … at every nesting level" — for the CHILDREN of
  XML elements (`XMLElementChildren`, a `ListNode` that `XMLElement.__init__` builds with the two list options of the
  `BuildOptions`; model `GtModel.Xml.kidsScript o`, exact correspondence: stream `scriptxml`).

  All statements are `XWalk P (.elem f) (.elem t) s` (Proofs/XmlOptions.lean): `P` holds for the root edit and the node
  pair it relates, and for every XML sub-edit with sub-edits (`XMLElementEdit` → its children edit → the paired child
  elements → …) on the nodes its indices name: at every nesting level of elements.

  (3x) `xml_no_list_edits_positional`              with `allow_list_edits = False` every edit over two child tuples that
                               is not a plain Match is a FixedLengthSequenceEdit whose sub-edits are (0,0)…(k-1,k-1),
                               k = min n m, followed by the removals of from-children k..n-1 or the insertions of
                               to-children k..m-1.
  (4x) `xml_no_list_edits_same_length_positional`  with `allow_list_edits_when_same_length = False` the same for child
                               tuples of EQUAL length (no surplus tail).
  Read off per element: `xml_no_list_edits_children`, `xml_no_list_edits_same_length_children`; the options matter:
  `xml_list_edits_allowed` (with the defaults the same child tuples are compared by an EditDistance).

  The attribute mapping of an element is an L2 tree of strings (no list inside): the L2 theorems of Props/C10.lean about
  the dictionary strategy apply to it unchanged; the list options have nothing to act on there.
-/
import GtModel.Proofs.XmlOptions
import GtModel.Props.C10

namespace GtModel.C10
open GtModel GtModel.Xml

/-- (3x) list edits off: the children of every element are paired by position, plus a surplus tail — at every
    nesting level of elements -/
theorem xml_no_list_edits_positional (o : Opts) (h : o.ale = false) (orc : Oracle) (fp tp : List Nat) (f t : XTree) :
    XWalk (XLocalPos fun _ _ => True) (.elem f) (.elem t) (xmlEdits o orc fp tp f t) :=
  xwalk_pos o _ (fun _ _ _ => by simp [h]) orc fp tp f t

/-- (4x) list edits off for equal lengths: equally many children are paired by position — at every nesting level -/
theorem xml_no_list_edits_same_length_positional (o : Opts) (h : o.alesl = false) (orc : Oracle) (fp tp : List Nat)
    (f t : XTree) :
    XWalk (XLocalPos fun n m => n = m) (.elem f) (.elem t) (xmlEdits o orc fp tp f t) :=
  xwalk_pos o _ (fun n m e => by simp [h, e]) orc fp tp f t

/-- (3x) for whole documents (both built with the same options, as `graphtage` does) -/
theorem xml_no_list_edits_positional_docs (o : Opts) (h : o.ale = false) (orc : Oracle) (f t : XDoc) :
    XWalk (XLocalPos fun _ _ => True) (.elem (xbuild o f)) (.elem (xbuild o t)) (diffXml o orc f t) :=
  xml_no_list_edits_positional o h orc [] [] _ _

/-- (4x) for whole documents -/
theorem xml_no_list_edits_same_length_positional_docs (o : Opts) (h : o.alesl = false) (orc : Oracle) (f t : XDoc) :
    XWalk (XLocalPos fun n m => n = m) (.elem (xbuild o f)) (.elem (xbuild o t)) (diffXml o orc f t) :=
  xml_no_list_edits_same_length_positional o h orc [] [] _ _

/-- (3x) read off for the children of one element pair: two different child tuples under `allow_list_edits = False`
    are edited by a FixedLengthSequenceEdit of positional shape -/
theorem xml_no_list_edits_children (o : Opts) (h : o.ale = false) (fcs tcs : List XTree) (tbl : List (List XScript))
    (hT : XTblTop tbl) (hne : xeqL fcs tcs = false) :
    kidsScript o fcs tcs tbl = kidsFixed fcs tcs tbl ∧
    (kidsScript o fcs tcs tbl).subs.map XScript.shape = positionalShape fcs.length tcs.length := by
  have e := kidsScript_of_cond o fcs tcs tbl hne (by simp [h])
  exact ⟨e, e ▸ kidsFixed_shape fcs tcs tbl hT⟩

/-- (4x) read off: two different child tuples of the same length under `allow_list_edits_when_same_length = False` -/
theorem xml_no_list_edits_same_length_children (o : Opts) (h : o.alesl = false) (fcs tcs : List XTree)
    (hlen : fcs.length = tcs.length) (tbl : List (List XScript)) (hT : XTblTop tbl) (hne : xeqL fcs tcs = false) :
    kidsScript o fcs tcs tbl = kidsFixed fcs tcs tbl ∧
    (kidsScript o fcs tcs tbl).subs.map XScript.shape = positionalShape fcs.length tcs.length := by
  have e := kidsScript_of_cond o fcs tcs tbl hne (by simp [h, hlen])
  exact ⟨e, e ▸ kidsFixed_shape fcs tcs tbl hT⟩

/-- the options matter: with both list options on, two different child tuples that are not both singletons are
    compared by an EditDistance (penalty 1), exactly as before the options reached `XMLElementChildren` -/
theorem xml_list_edits_allowed (o : Opts) (h1 : o.ale = true) (h2 : o.alesl = true) (fcs tcs : List XTree)
    (tbl : List (List XScript)) (hne : xeqL fcs tcs = false) (hlen : ¬(fcs.length = 1 ∧ tcs.length = 1)) :
    kidsScript o fcs tcs tbl = kidsEd fcs tcs 1 tbl := by
  unfold kidsScript
  rw [if_neg (by simp [hne]), if_neg]
  simp only [h1, h2, Bool.not_true, Bool.false_or, Bool.and_eq_true, beq_iff_eq]
  omega

/-! ### non-vacuity and concrete instances -/

def xa : XTree := .mk [97] (.dict []) none []
def xb : XTree := .mk [98] (.dict []) none []
def xc : XTree := .mk [99] (.dict []) none []

/-- the hypotheses of the read-off theorems hold for `<a/><b/><c/>` against `<b/><c/>` (and the shifted triple) -/
example : xeqL [xa, xb, xc] [xb, xc] = false ∧ xeqL [xa, xb, xc] [xb, xc, xa] = false := by
  simp [xa, xb, xc, XTree.eq_mk]
example : XTblTop [[xMatch 1, xMatch 1], [xMatch 0, xMatch 1], [xMatch 1, xMatch 0]] := by
  intro i j
  match i, j with
  | 0, 0 | 0, 1 | 1, 0 | 1, 1 | 2, 0 | 2, 1 => rfl
  | 0, _ + 2 | 1, _ + 2 | 2, _ + 2 | _ + 3, _ => rfl

/-- three children against two with list edits off: (0,0), (1,1), then child 2 removed — although `<b/>`, `<c/>` occur
    unchanged one position further left -/
example : (kidsFixed [xa, xb, xc] [xb, xc] [[xMatch 1, xMatch 1], [xMatch 0, xMatch 1], [xMatch 1, xMatch 0]]).subs.map XScript.shape
    = [(.pair, .at 0, .at 0), (.pair, .at 1, .at 1), (.rem, .at 2, .none)] := by decide +kernel
example : positionalShape 3 2 = [(.pair, .at 0, .at 0), (.pair, .at 1, .at 1), (.rem, .at 2, .none)] := by decide
/-- the shape predicate rejects the script an EditDistance finds for the same children (remove `<a/>`, match the rest) -/
example : [xRemove 0 1 1, (xMatch 0).relabel (.at 1) (.at 0), (xMatch 0).relabel (.at 2) (.at 1)].map XScript.shape
    ≠ positionalShape 3 2 := by decide

end GtModel.C10

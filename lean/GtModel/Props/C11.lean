/-
  C11 "String changes are minimal".

  `strScript a b` (Model/EditMatrix.lean) mirrors `StringNode(a).edits(StringNode(b))` per character.
  Main statements (for ALL strings `a b` over any alphabet with decidable equality):

  * `strScript_reconstructs`        dropping inserted characters gives `a`, dropping removed characters gives `b`
  * `string_edit_minimal`           the characters shown as unchanged are a common subsequence of `a` and `b` whose
                                    length is `lcs a b`, the maximum possible (`lcs_le`, `lcs_attained`)
  * `removed_plus_inserted_eq`      removed + inserted = |a| + |b| - 2·lcs a b
  * `removed_plus_inserted_minimal` no script that turns `a` into `b` marks fewer characters
  * `strScript_no_subst`            the matrix never matches two different characters (only the special case of two
                                    one-character strings produces a substitution)
  * `strCost_eq`                    the reported cost is the number of characters marked removed or inserted
-/
import GtModel.Proofs.EditMatrixLcs

namespace GtModel.EditMatrix

variable {α : Type} [DecidableEq α]
set_option linter.unusedSectionVars false

/-! ### Generic facts about per-character scripts -/

@[simp] theorem fromProj_nil : fromProj ([] : List (CharOp α)) = [] := rfl
@[simp] theorem toProj_nil : toProj ([] : List (CharOp α)) = [] := rfl
@[simp] theorem kept_nil : kept ([] : List (CharOp α)) = [] := rfl
@[simp] theorem removed_nil : removed ([] : List (CharOp α)) = 0 := rfl
@[simp] theorem inserted_nil : inserted ([] : List (CharOp α)) = 0 := rfl
@[simp] theorem fromProj_cons (op : CharOp α) (s : List (CharOp α)) :
    fromProj (op :: s) = op.fromPart ++ fromProj s := by simp [fromProj]
@[simp] theorem toProj_cons (op : CharOp α) (s : List (CharOp α)) :
    toProj (op :: s) = op.toPart ++ toProj s := by simp [toProj]
@[simp] theorem kept_cons (op : CharOp α) (s : List (CharOp α)) :
    kept (op :: s) = op.keptPart ++ kept s := by simp [kept]
@[simp] theorem removed_cons (op : CharOp α) (s : List (CharOp α)) :
    removed (op :: s) = op.nRemoved + removed s := by simp [removed]
@[simp] theorem inserted_cons (op : CharOp α) (s : List (CharOp α)) :
    inserted (op :: s) = op.nInserted + inserted s := by simp [inserted]
@[simp] theorem fromProj_append (s t : List (CharOp α)) : fromProj (s ++ t) = fromProj s ++ fromProj t := by
  simp [fromProj]
@[simp] theorem toProj_append (s t : List (CharOp α)) : toProj (s ++ t) = toProj s ++ toProj t := by
  simp [toProj]
@[simp] theorem kept_append (s t : List (CharOp α)) : kept (s ++ t) = kept s ++ kept t := by
  simp [kept]
@[simp] theorem removed_append (s t : List (CharOp α)) : removed (s ++ t) = removed s + removed t := by
  simp [removed]
@[simp] theorem inserted_append (s t : List (CharOp α)) : inserted (s ++ t) = inserted s + inserted t := by
  simp [inserted]

@[simp] theorem fromProj_map_kept (p : List α) : fromProj (p.map CharOp.kept) = p := by
  induction p <;> simp_all [CharOp.fromPart]
@[simp] theorem toProj_map_kept (p : List α) : toProj (p.map CharOp.kept) = p := by
  induction p <;> simp_all [CharOp.toPart]
@[simp] theorem kept_map_kept (p : List α) : kept (p.map CharOp.kept) = p := by
  induction p <;> simp_all [CharOp.keptPart]
@[simp] theorem removed_map_kept (p : List α) : removed (p.map CharOp.kept) = 0 := by
  induction p <;> simp_all [CharOp.nRemoved]
@[simp] theorem inserted_map_kept (p : List α) : inserted (p.map CharOp.kept) = 0 := by
  induction p <;> simp_all [CharOp.nInserted]

/-- The characters shown as unchanged appear, in order, in the source … -/
theorem kept_sublist_fromProj (s : List (CharOp α)) : (kept s).Sublist (fromProj s) := by
  induction s with
  | nil => simp
  | cons op s ih =>
    cases op <;> simp [CharOp.keptPart, CharOp.fromPart, ih]
    all_goals exact ih.cons _

/-- … and in the target. -/
theorem kept_sublist_toProj (s : List (CharOp α)) : (kept s).Sublist (toProj s) := by
  induction s with
  | nil => simp
  | cons op s ih =>
    cases op <;> simp [CharOp.keptPart, CharOp.toPart, ih]
    all_goals exact ih.cons _

theorem length_fromProj (s : List (CharOp α)) : (fromProj s).length = (kept s).length + removed s := by
  induction s with
  | nil => simp
  | cons op s ih => cases op <;> simp [CharOp.keptPart, CharOp.fromPart, CharOp.nRemoved, ih] <;> omega

theorem length_toProj (s : List (CharOp α)) : (toProj s).length = (kept s).length + inserted s := by
  induction s with
  | nil => simp
  | cons op s ih => cases op <;> simp [CharOp.keptPart, CharOp.toPart, CharOp.nInserted, ih] <;> omega

/-- `op` is not a substitution. -/
def CharOp.NoSubst : CharOp α → Prop
  | .subst _ _ => False
  | _ => True

/-! ### Trimming -/

theorem sharedPrefix_split (a b : List α) :
    ∃ p a' b', a = p ++ a' ∧ b = p ++ b' ∧ sharedPrefixLen a b = p.length := by
  fun_induction sharedPrefixLen a b with
  | case1 x a y b h ih =>
    obtain ⟨p, a', b', h1, h2, h3⟩ := ih
    have : x = y := by simpa using h
    subst this
    exact ⟨x :: p, a', b', by simp [h1], by simp [h2], by simp [h3]⟩
  | case2 x a y b h => exact ⟨[], _, _, rfl, rfl, rfl⟩
  | case3 a b h => exact ⟨[], _, _, rfl, rfl, rfl⟩

/-- `EditDistance.__init__`: `a = p ++ ma ++ s`, `b = p ++ mb ++ s` where `p`, `s` are the trimmed ends. -/
theorem trim_decomp (a b : List α) :
    ∃ p ma mb s, a = p ++ ma ++ s ∧ b = p ++ mb ++ s ∧ trimLens a b = (p.length, s.length) := by
  obtain ⟨p, a', b', h1, h2, h3⟩ := sharedPrefix_split a b
  obtain ⟨q, ra, rb, g1, g2, g3⟩ := sharedPrefix_split a'.reverse b'.reverse
  refine ⟨p, ra.reverse, rb.reverse, q.reverse, ?_, ?_, ?_⟩
  · rw [h1, List.append_assoc]; congr 1
    have := congrArg List.reverse g1; simpa using this
  · rw [h2, List.append_assoc]; congr 1
    have := congrArg List.reverse g2; simpa using this
  · simp only [trimLens, h3]
    have e1 : a.drop p.length = a' := by rw [h1]; simp
    have e2 : b.drop p.length = b' := by rw [h2]; simp
    rw [e1, e2, g3]; simp

theorem middle_eq (p m s : List α) : middle (p ++ m ++ s) (p.length, s.length) = m := by
  simp [middle, List.append_assoc]

theorem take_eq (p m s : List α) : (p ++ m ++ s).take p.length = p := by
  simp [List.append_assoc]

theorem drop_eq (p m s : List α) : (p ++ m ++ s).drop ((p ++ m ++ s).length - s.length) = s := by
  have : (p ++ m ++ s).length - s.length = (p ++ m).length := by simp; omega
  rw [this]; simp

/-! ### Replaying the matrix script over the characters -/

theorem drop_eq_cons' {β : Type} {l : List β} {k : Nat} {x : β} {xs : List β}
    (h : l.drop k = x :: xs) : l[k]? = some x ∧ l.drop (k + 1) = xs := by
  constructor
  · have : (l.drop k)[0]? = some x := by rw [h]; rfl
    rw [List.getElem?_drop] at this
    simpa using this
  · have : l.drop (k + 1) = (l.drop k).drop 1 := by rw [List.drop_drop]
    rw [this, h]; rfl

theorem cellAt_charCells' (A B : List α) (r c : Nat) (x y : α) (hA : A[c]? = some x) (hB : B[r]? = some y) :
    cellAt (charCells A B) r c = if x = y then 0 else 1 := by
  simp [cellAt, charCells, List.getD, hA, hB]

theorem ones_getD' (A : List α) (c : Nat) (x : α) (hA : A[c]? = some x) : (ones A).getD c 0 = 1 := by
  simp [ones, List.getD, hA]

/-- What replaying a script yields, provided the script consumes both sequences exactly and every DIAG is
    admissible (strictly cheaper than the insert, i.e. of cost 0, i.e. between equal characters). -/
theorem replay_facts (A B : List α) (ms : List Move) :
    ∀ (r0 c0 : Nat) (a' b' : List α), A.drop c0 = a' → B.drop r0 = b' →
      ForallMoves (DiagLt (ones A) (ones B) (charCells A B)) r0 c0 ms →
      ms.count .diag + ms.count .left = a'.length → ms.count .diag + ms.count .up = b'.length →
      fromProj (replay a' b' ms) = a' ∧ toProj (replay a' b' ms) = b' ∧
      (kept (replay a' b' ms)).length = ms.count .diag ∧
      removed (replay a' b' ms) = ms.count .left ∧ inserted (replay a' b' ms) = ms.count .up ∧
      (∀ op ∈ replay a' b' ms, op.NoSubst) ∧
      (moveCostsFrom (ones A) (ones B) (charCells A B) r0 c0 ms).sum = ms.count .left + ms.count .up := by
  induction ms with
  | nil =>
    intro r0 c0 a' b' _ _ _ h1 h2
    have ea : a' = [] := by simpa using h1.symm
    have eb : b' = [] := by simpa using h2.symm
    subst ea eb
    simp [replay, moveCostsFrom]
  | cons mv ms ih =>
    intro r0 c0 a' b' hA hB hF h1 h2
    obtain ⟨hP, hF'⟩ := hF
    cases mv with
    | diag =>
      simp only [List.count_cons_self] at h1 h2
      cases a' with
      | nil => simp at h1
      | cons x a'' =>
      cases b' with
      | nil => simp at h2
      | cons y b'' =>
      obtain ⟨gA, dA⟩ := drop_eq_cons' hA
      obtain ⟨gB, dB⟩ := drop_eq_cons' hB
      have hlt := (hP rfl).1
      rw [cellAt_charCells' A B r0 c0 x y gA gB, ones_getD' B r0 y gB] at hlt
      have hxy : x = y := by
        by_cases h : x = y
        · exact h
        · simp [h] at hlt
      subst hxy
      obtain ⟨i1, i2, i3, i4, i5, i6, i7⟩ := ih (r0 + 1) (c0 + 1) a'' b'' dA dB hF'
        (by simp at h1; omega) (by simp at h2; omega)
      simp only [replay, if_true, moveCostsFrom, moveCost, Move.next]
      rw [cellAt_charCells' A B r0 c0 x x gA gB]
      simp [CharOp.fromPart, CharOp.toPart, CharOp.keptPart, CharOp.nRemoved, CharOp.nInserted, CharOp.NoSubst,
        i1, i2, i3, i4, i5, i7]
      exact i6
    | up =>
      simp at h1 h2
      cases b' with
      | nil => simp at h2
      | cons y b'' =>
      obtain ⟨gB, dB⟩ := drop_eq_cons' hB
      obtain ⟨i1, i2, i3, i4, i5, i6, i7⟩ := ih (r0 + 1) c0 a' b'' hA dB hF' (by omega) (by simp at h2; omega)
      have e : replay a' (y :: b'') (Move.up :: ms) = CharOp.inserted y :: replay a' b'' ms := by
        cases a' <;> simp [replay]
      rw [e]
      simp only [moveCostsFrom, moveCost, Move.next]
      rw [ones_getD' B r0 y gB]
      simp [CharOp.fromPart, CharOp.toPart, CharOp.keptPart, CharOp.nRemoved, CharOp.nInserted, CharOp.NoSubst,
        i1, i2, i3, i4, i5, i7]
      refine ⟨by omega, i6, by omega⟩
    | left =>
      simp at h1 h2
      cases a' with
      | nil => simp at h1
      | cons x a'' =>
      obtain ⟨gA, dA⟩ := drop_eq_cons' hA
      obtain ⟨i1, i2, i3, i4, i5, i6, i7⟩ := ih r0 (c0 + 1) a'' b' dA hB hF' (by simp at h1; omega) (by omega)
      have e : replay (x :: a'') b' (Move.left :: ms) = CharOp.removed x :: replay a'' b' ms := by
        cases b' <;> simp [replay]
      rw [e]
      simp only [moveCostsFrom, moveCost, Move.next]
      rw [ones_getD' A c0 x gA]
      simp [CharOp.fromPart, CharOp.toPart, CharOp.keptPart, CharOp.nRemoved, CharOp.nInserted, CharOp.NoSubst,
        i1, i2, i3, i4, i5, i7]
      refine ⟨by omega, i6, by omega⟩

/-- The replayed matrix script of two character sequences. -/
def matrixScript (a b : List α) : List (CharOp α) :=
  replay a b (solve (ones a) (ones b) (charCells a b)).2

theorem matrixScript_facts (a b : List α) :
    fromProj (matrixScript a b) = a ∧ toProj (matrixScript a b) = b ∧
    (kept (matrixScript a b)).length = lcs a b ∧
    removed (matrixScript a b) + inserted (matrixScript a b) = (solve (ones a) (ones b) (charCells a b)).1 ∧
    (∀ op ∈ matrixScript a b, op.NoSubst) := by
  have hc := solve_counts (ones a) (ones b) (charCells a b)
  rw [ones_length, ones_length] at hc
  have hd := solve_diag_lt (ones a) (ones b) (charCells a b)
  have ht := solve_total_eq_sum (ones a) (ones b) (charCells a b)
  have hl := solve_unit_cost_lcs a b
  obtain ⟨i1, i2, i3, i4, i5, i6, i7⟩ :=
    replay_facts a b (solve (ones a) (ones b) (charCells a b)).2 0 0 a b rfl rfl hd hc.1 hc.2
  unfold moveCosts at ht
  refine ⟨i1, i2, ?_, ?_, i6⟩
  · rw [matrixScript, i3]; omega
  · rw [matrixScript, i4, i5]; omega

theorem editDistanceScript_eq (p ma mb s : List α) :
    trimLens (p ++ ma ++ s) (p ++ mb ++ s) = (p.length, s.length) →
    editDistanceScript (p ++ ma ++ s) (p ++ mb ++ s)
      = p.map CharOp.kept ++ matrixScript ma mb ++ s.map CharOp.kept := by
  intro h
  unfold editDistanceScript
  simp only [h, middle_eq, take_eq, drop_eq, matrixScript]

/-- Facts about `string_edit_distance(a, b).edits()` for arbitrary `a`, `b`. -/
theorem editDistanceScript_facts (a b : List α) :
    fromProj (editDistanceScript a b) = a ∧ toProj (editDistanceScript a b) = b ∧
    (kept (editDistanceScript a b)).length = lcs a b ∧
    (∀ op ∈ editDistanceScript a b, op.NoSubst) := by
  obtain ⟨p, ma, mb, s, ha, hb, ht⟩ := trim_decomp a b
  subst ha hb
  rw [editDistanceScript_eq p ma mb s ht]
  obtain ⟨f1, f2, f3, _, f5⟩ := matrixScript_facts ma mb
  refine ⟨by simp [f1], by simp [f2], ?_, ?_⟩
  · rw [lcs_trim]; simp [f3]; omega
  · intro op hop
    simp only [List.mem_append, List.mem_map] at hop
    rcases hop with (⟨c, _, rfl⟩ | h) | ⟨c, _, rfl⟩
    · trivial
    · exact f5 op h
    · trivial

end GtModel.EditMatrix

namespace GtModel.C11
open GtModel.EditMatrix

variable {α : Type} [DecidableEq α]

/-- The three cases of `StringNode.edits`. -/
theorem strScript_cases (a b : List α) :
    (a = b ∧ strScript a b = a.map CharOp.kept) ∨
    (∃ x y, x ≠ y ∧ a = [x] ∧ b = [y] ∧ strScript a b = [CharOp.subst x y]) ∨
    (a ≠ b ∧ (a.length ≠ 1 ∨ b.length ≠ 1) ∧ strScript a b = editDistanceScript a b) := by
  by_cases h : a = b
  · exact Or.inl ⟨h, by simp [strScript, h]⟩
  · right
    unfold strScript
    simp only [h, if_false]
    split
    · rename_i x y
      exact Or.inl ⟨x, y, fun e => h (by rw [e]), rfl, rfl, rfl⟩
    · rename_i hne
      refine Or.inr ⟨h, ?_, rfl⟩
      by_cases h1 : a.length = 1
      · by_cases h2 : b.length = 1
        · exfalso
          match a, b, h1, h2 with
          | [x], [y], _, _ => exact hne x y rfl rfl
        · exact Or.inr h2
      · exact Or.inl h1

/-- Dropping the inserted characters gives the source string, dropping the removed characters gives the target. -/
theorem strScript_reconstructs (a b : List α) :
    fromProj (strScript a b) = a ∧ toProj (strScript a b) = b := by
  rcases strScript_cases a b with ⟨h, e⟩ | ⟨x, y, _, ha, hb, e⟩ | ⟨_, _, e⟩
  · rw [e]; subst h; simp
  · rw [e, ha, hb]; simp [CharOp.fromPart, CharOp.toPart]
  · rw [e]; exact ⟨(editDistanceScript_facts a b).1, (editDistanceScript_facts a b).2.1⟩

/-- C11: the characters shown as unchanged form a LONGEST common subsequence of the two strings
    (`lcs a b` is the maximum length of a common subsequence: `lcs_le`, `lcs_attained`). -/
theorem string_edit_minimal (a b : List α) :
    IsCommonSubseq (kept (strScript a b)) a b ∧ (kept (strScript a b)).length = lcs a b := by
  constructor
  · have h := strScript_reconstructs a b
    constructor
    · have := kept_sublist_fromProj (strScript a b); rwa [h.1] at this
    · have := kept_sublist_toProj (strScript a b); rwa [h.2] at this
  · rcases strScript_cases a b with ⟨h, e⟩ | ⟨x, y, hxy, ha, hb, e⟩ | ⟨_, _, e⟩
    · rw [e]; subst h; simp [lcs_self]
    · rw [e, ha, hb]; simp [CharOp.keptPart, lcs, hxy]
    · rw [e]; exact (editDistanceScript_facts a b).2.2.1

/-- … and no common subsequence is longer. -/
theorem kept_longest (a b : List α) (s : List α) (h : IsCommonSubseq s a b) :
    s.length ≤ (kept (strScript a b)).length := by
  rw [(string_edit_minimal a b).2]; exact lcs_le a b s h

-- [audit] non-vacuity of `kept_longest`: a non-trivial common subsequence of two concrete strings with a shared
-- suffix and repeated characters; the theorem applied to it; and what the model script keeps on this pair.
example : IsCommonSubseq ['b', 'a'] ['a', 'b', 'c', 'a', 'b'] ['b', 'c', 'a', 'a', 'b'] := ⟨by decide, by decide⟩
example : 2 ≤ (kept (strScript ['a', 'b', 'c', 'a', 'b'] ['b', 'c', 'a', 'a', 'b'])).length :=
  kept_longest _ _ ['b', 'a'] ⟨by decide, by decide⟩
example : strScript ['a', 'b', 'c', 'a', 'b'] ['b', 'c', 'a', 'a', 'b'] =
    [.removed 'a', .kept 'b', .kept 'c', .inserted 'a', .kept 'a', .kept 'b'] := by decide

/-- The number of characters marked removed plus inserted. -/
theorem removed_plus_inserted_eq (a b : List α) :
    removed (strScript a b) + inserted (strScript a b) = a.length + b.length - 2 * lcs a b := by
  have h := strScript_reconstructs a b
  have h1 := length_fromProj (strScript a b)
  have h2 := length_toProj (strScript a b)
  rw [h.1] at h1
  rw [h.2] at h2
  have := (string_edit_minimal a b).2
  omega

/-- A script is valid for `a → b` iff removing its inserted characters spells `a` and removing its removed
    characters spells `b`.  No valid script marks fewer characters than `strScript a b`. -/
theorem removed_plus_inserted_minimal (a b : List α) (s' : List (CharOp α))
    (hfrom : fromProj s' = a) (hto : toProj s' = b) :
    removed (strScript a b) + inserted (strScript a b) ≤ removed s' + inserted s' := by
  have h1 := length_fromProj s'
  have h2 := length_toProj s'
  rw [hfrom] at h1
  rw [hto] at h2
  have hk : (kept s').length ≤ lcs a b := by
    apply lcs_le
    constructor
    · have := kept_sublist_fromProj s'; rwa [hfrom] at this
    · have := kept_sublist_toProj s'; rwa [hto] at this
  have := removed_plus_inserted_eq a b
  have := lcs_le_left a b
  have := lcs_le_right a b
  omega

/-- non-vacuity of `removed_plus_inserted_minimal`: a valid (non-optimal) script for "ab" → "ba" -/
example : fromProj [CharOp.removed 'a', CharOp.removed 'b', CharOp.inserted 'b', CharOp.inserted 'a'] = ['a', 'b'] ∧
    toProj [CharOp.removed 'a', CharOp.removed 'b', CharOp.inserted 'b', CharOp.inserted 'a'] = ['b', 'a'] := by
  decide

/-- The matrix never matches two different characters: a substitution only comes from the special case of two
    one-character strings (`StringNode.edits` returns `Match(self, node, 1)`). -/
theorem strScript_no_subst (a b : List α) (h : a.length ≠ 1 ∨ b.length ≠ 1) :
    ∀ op ∈ strScript a b, op.NoSubst := by
  rcases strScript_cases a b with ⟨_, e⟩ | ⟨x, y, _, ha, hb, _⟩ | ⟨_, _, e⟩
  · rw [e]; intro op hop
    simp only [List.mem_map] at hop
    obtain ⟨c, _, rfl⟩ := hop; trivial
  · subst ha hb; simp at h
  · rw [e]; exact (editDistanceScript_facts a b).2.2.2

/-- The reported cost (`bounds()` of the fully tightened edit) is the number of characters marked removed or
    inserted — except for two different one-character strings, where the cost is 1 but the character is shown
    as one removal plus one insertion. -/
theorem strCost_eq (a b : List α) (h : a.length ≠ 1 ∨ b.length ≠ 1) :
    strCost a b = removed (strScript a b) + inserted (strScript a b) := by
  rcases strScript_cases a b with ⟨hab, e⟩ | ⟨x, y, _, ha, hb, _⟩ | ⟨hab, _, e⟩
  · rw [e]; simp [strCost, hab]
  · subst ha hb; simp at h
  · rw [e]
    have hc : strCost a b = (solve (ones (middle a (trimLens a b))) (ones (middle b (trimLens a b)))
        (charCells (middle a (trimLens a b)) (middle b (trimLens a b)))).1 := by
      unfold strCost
      simp only [hab, if_false]
      split
      · simp at h
      · rfl
    obtain ⟨p, ma, mb, s, ha, hb, ht⟩ := trim_decomp a b
    subst ha hb
    rw [hc, editDistanceScript_eq p ma mb s ht, ht, middle_eq, middle_eq]
    have := (matrixScript_facts ma mb).2.2.2.1
    simp; omega

/-- non-vacuity of `strCost_eq` -/
example : (['a', 'b'].length ≠ 1 ∨ ['b'].length ≠ 1) ∧ strCost ['a', 'b'] ['b'] = 1 := by decide

theorem strCost_single (x y : α) (h : x ≠ y) : strCost [x] [y] = 1 := by
  simp [strCost, h]

-- [audit] the hypothesis `a.length ≠ 1 ∨ b.length ≠ 1` of `strScript_no_subst` / `strCost_eq` is needed: for two
-- different one-character strings the script is a substitution and the reported cost (1) is NOT the number of
-- characters marked removed plus inserted (2).
example : strScript ['a'] ['b'] = [CharOp.subst 'a' 'b'] ∧ strCost ['a'] ['b'] = 1 ∧
    removed (strScript ['a'] ['b']) + inserted (strScript ['a'] ['b']) = 2 := by decide

/-- non-vacuity of `strScript_no_subst` -/
example : (['a', 'b'].length ≠ 1 ∨ ['b'].length ≠ 1) ∧
    strScript ['a', 'b'] ['b'] = [CharOp.removed 'a', CharOp.kept 'b'] := by decide

/-! ### Corollaries a reader of a string diff relies on: the amount marked does not depend on the direction of the
    comparison nor on reading both strings backwards, and nothing is marked exactly when the strings are equal. -/

/-- `lcs` is symmetric (from its characterisation as a maximum: `lcs_le`, `lcs_attained`). -/
theorem lcs_comm (a b : List α) : lcs a b = lcs b a := by
  apply Nat.le_antisymm
  · obtain ⟨s, hs, hl⟩ := lcs_attained a b
    rw [← hl]; exact lcs_le b a s ⟨hs.2, hs.1⟩
  · obtain ⟨s, hs, hl⟩ := lcs_attained b a
    rw [← hl]; exact lcs_le a b s ⟨hs.2, hs.1⟩

/-- Editing `a` into `b` marks as many characters (removed + inserted) as editing `b` into `a`. -/
theorem removed_plus_inserted_symm (a b : List α) :
    removed (strScript a b) + inserted (strScript a b) = removed (strScript b a) + inserted (strScript b a) := by
  rw [removed_plus_inserted_eq, removed_plus_inserted_eq, lcs_comm a b]; omega

/-- Reading both strings backwards does not change the number of characters marked. -/
theorem removed_plus_inserted_reverse (a b : List α) :
    removed (strScript a.reverse b.reverse) + inserted (strScript a.reverse b.reverse) =
      removed (strScript a b) + inserted (strScript a b) := by
  rw [removed_plus_inserted_eq, removed_plus_inserted_eq, lcs_reverse]; simp

/-- No character is marked removed or inserted exactly when the two strings are equal. -/
theorem no_marks_iff_eq (a b : List α) :
    removed (strScript a b) + inserted (strScript a b) = 0 ↔ a = b := by
  constructor
  · intro h
    rw [removed_plus_inserted_eq] at h
    have h1 := lcs_le_left a b
    have h2 := lcs_le_right a b
    obtain ⟨s, hs, hl⟩ := lcs_attained a b
    have ea : s = a := hs.1.eq_of_length (by omega)
    have eb : s = b := hs.2.eq_of_length (by omega)
    rw [← ea, ← eb]
  · intro h
    subst h
    rw [removed_plus_inserted_eq, lcs_self]; omega

/-- non-vacuity / direction check of the corollaries on a concrete pair -/
example : removed (strScript ['a', 'b', 'c'] ['b', 'd']) + inserted (strScript ['a', 'b', 'c'] ['b', 'd']) = 3 ∧
    removed (strScript ['b', 'd'] ['a', 'b', 'c']) + inserted (strScript ['b', 'd'] ['a', 'b', 'c']) = 3 := by decide

/-- The property does not depend on HOW ties are broken: every valid script for `a → b` (whatever produced it) whose
    unchanged characters form a longest common subsequence marks exactly as many characters as `strScript a b`, and
    conversely a valid script that marks that few keeps a longest common subsequence.  (A rewrite of the matrix that
    picks another optimal path changes the correspondence, not the truth of C11.) -/
theorem minimal_iff_kept_longest (a b : List α) (s' : List (CharOp α))
    (hfrom : fromProj s' = a) (hto : toProj s' = b) :
    (kept s').length = lcs a b ↔
      removed s' + inserted s' = removed (strScript a b) + inserted (strScript a b) := by
  have h1 := length_fromProj s'
  have h2 := length_toProj s'
  rw [hfrom] at h1
  rw [hto] at h2
  have hk : (kept s').length ≤ lcs a b := by
    apply lcs_le
    constructor
    · have := kept_sublist_fromProj s'; rwa [hfrom] at this
    · have := kept_sublist_toProj s'; rwa [hto] at this
  have := removed_plus_inserted_eq a b
  have := lcs_le_left a b
  have := lcs_le_right a b
  constructor <;> intro h <;> omega

/-- non-vacuity: another optimal script for "ab" → "ba" (keeps 'a' where the model keeps 'b') -/
example : fromProj [CharOp.inserted 'b', CharOp.kept 'a', CharOp.removed 'b'] = ['a', 'b'] ∧
    toProj [CharOp.inserted 'b', CharOp.kept 'a', CharOp.removed 'b'] = ['b', 'a'] ∧
    (kept [CharOp.inserted 'b', CharOp.kept 'a', CharOp.removed 'b']).length = lcs ['a', 'b'] ['b', 'a'] ∧
    strScript ['a', 'b'] ['b', 'a'] ≠ [CharOp.inserted 'b', CharOp.kept 'a', CharOp.removed 'b'] := by
  refine ⟨by decide, by decide, ?_, by decide⟩
  simp [lcs, kept, CharOp.keptPart]

end GtModel.C11

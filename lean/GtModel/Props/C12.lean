/-
  C12 — printing an unedited document yields text that parses back equal (JSON, JSON5, CSV part).

  Model: `GtModel.RoundTrip` (GtModel/Model/RoundTrip.lean): `printJson` mirrors the JSON formatter on an unedited
  tree character for character (layout included); `readJson` is the specification of the loader (RFC 8259 parser
  with Python's surrogate-pair handling).  Both are tied to the real code by the `roundtrip` stream: the model
  printer's text equals the real text exactly and the model reader applied to the REAL printed text returns what
  the real loader returned.

  Full-strength statement  `∀ v, readJson (printJson v) = some v`  is FALSE for values that no loader produces:
    * a string holding a high surrogate directly followed by a low surrogate reads back as ONE character
      (`pair_hypothesis_needed`); `json.loads` never returns such a string (it combines the pair), so `valid` is
      an invariant of loaded documents, checked on every case of the stream ("valid": true);
    * a float token that is not a number literal with a fraction/exponent (`float.__repr__` always produces one;
      this is the CPython guarantee the theorem assumes; the driver re-lexes every shipped token and the stream
      fails if one does not fit).
  JSON5: the loader is `json5.load` followed by `JSON5._combine_surrogates` (`loadJson5`); `read_print_json5` is the
  round trip for ALL code points on the same domain as `read_print`.  `read_print_json5_bmp` and
  `json5_astral_counterexample` describe the `json5` library ALONE (the loader before the repair) and are kept as
  historical witnesses of the defect.
  NOT covered by theorems (stream only): YAML, plist and XML round trips; the JSON5-only source syntax (the printed
  text is plain JSON); that `float(repr(x)) == x` (CPython).
-/
import GtModel.Proofs.RoundTripJson
import GtModel.Proofs.RoundTripCsv

namespace GtModel.C12
open GtModel.RoundTrip

/-- JSON: for every loaded document — any nesting depth, strings over all code points incl. lone surrogates,
    integers of any size, float literals — the parser applied to the printed text returns the document. -/
theorem read_print (v : JVal) (hv : v.valid = true) : readJson (printJson v) = some v :=
  readDoc_printJson true v (by
    have e : okStr true = validStr := by funext s; simp [okStr]
    rw [e]; exact hv)

/-- HISTORICAL WITNESS (pre-fix loader): JSON5 read by the `json5` library ALONE, which does not recombine escaped
    surrogate pairs — what `JSON5.build_tree` did before the repair.  The round trip then holds exactly on documents
    whose strings stay inside the Basic Multilingual Plane.  The statement about the CURRENT loader is
    `read_print_json5` below (all code points); this lemma is used in its proof. -/
theorem read_print_json5_bmp (v : JVal) (hv : v.valid5 = true) : readJson5 (printJson v) = some v :=
  readDoc_printJson false v (by
    have e : okStr false = bmpStr := by funext s; simp [okStr]
    rw [e]; exact hv)

/-- HISTORICAL WITNESS (pre-fix loader, recorded defect): with the `json5` library alone the round trip fails for
    every astral character — U+10000 comes back as two surrogates.  Repaired in `JSON5.build_tree`
    (`_combine_surrogates`); the current loader is `loadJson5`, for which `read_print_json5` holds. -/
theorem json5_astral_counterexample :
    readJson5 (printJson (.str [65536])) = some (.str [55296, 56320]) := by rfl

/-- the `valid` hypothesis of `read_print` cannot be dropped: an (unloadable) adjacent surrogate pair is merged -/
theorem pair_hypothesis_needed :
    readJson (printJson (.str [55357, 56832])) = some (.str [128512]) := by rfl

/-! non-vacuity: concrete documents satisfying the hypotheses -/

/-- `{"a\"\\": [1, -0.5e-7, "\ud800x\udc00 😀", [], {}], "": null}` with a lone high and a lone low surrogate -/
def sample : JVal :=
  .obj (.cons [97, 34, 92]
        (.arr (.cons (.int 1) (.cons (.float (.num true [48] [53] (some (some 45, [55]))))
          (.cons (.str [55296, 120, 56320, 32, 128512]) (.cons (.arr .nil) (.cons (.obj .nil) .nil))))))
        (.cons [] .null .nil))

example : sample.valid = true := by decide
example : (JVal.arr (.cons (.str [233, 8232, 65534]) (.cons (.int (-5)) .nil))).valid5 = true := by decide

/-! ## JSON5 after the fix: `JSON5.build_tree` = `build_tree(JSON5._combine_surrogates(json5.load(f)))`

  `_combine_surrogates` sends every string of the loaded value (keys included) through
  `s.encode('utf-16-le', 'surrogatepass').decode('utf-16-le', 'surrogatepass')`: the encoder writes an astral character
  as a surrogate pair of code units (`splitStr`), the decoder reads a high unit directly followed by a low unit as one
  character (`joinStr`) and leaves lone surrogates alone. -/

/-- UTF-16 code units of a string (`encode('utf-16-le', 'surrogatepass')`, as 16-bit units) -/
def splitStr : Str → Str
  | [] => []
  | c :: t =>
    if 65536 ≤ c then (55296 + (c - 65536) / 1024) :: (56320 + (c - 65536) % 1024) :: splitStr t
    else c :: splitStr t

/-- `decode('utf-16-le', 'surrogatepass')` of a sequence of 16-bit units -/
def joinStr : Str → Str
  | a :: b :: t =>
    if isHigh a && isLow b then (65536 + (a - 55296) * 1024 + (b - 56320)) :: joinStr t else a :: joinStr (b :: t)
  | l => l

/-- `JSON5._combine_surrogates` on one string -/
def combineStr (s : Str) : Str := joinStr (splitStr s)

mutual
/-- `JSON5._combine_surrogates`: every string and every key of the value -/
def combineVal : JVal → JVal
  | .str s => .str (combineStr s)
  | .arr xs => .arr (combineL xs)
  | .obj kvs => .obj (combineO kvs)
  | v => v
def combineL : JList → JList
  | .nil => .nil
  | .cons v t => .cons (combineVal v) (combineL t)
def combineO : JObj → JObj
  | .nil => .nil
  | .cons k v t => .cons (combineStr k) (combineVal v) (combineO t)
end

/-- the JSON5 loader as it is NOW (after the repair of D-json5-astral): `json5.load`, then `_combine_surrogates` -/
def loadJson5 (inp : Str) : Option JVal := (readJson5 inp).map combineVal

mutual
/-- the value with every astral character written as its two surrogates: what the `json5` library returns for the
    printed text of `v` -/
def splitVal : JVal → JVal
  | .str s => .str (splitStr s)
  | .arr xs => .arr (splitL xs)
  | .obj kvs => .obj (splitO kvs)
  | v => v
def splitL : JList → JList
  | .nil => .nil
  | .cons v t => .cons (splitVal v) (splitL t)
def splitO : JObj → JObj
  | .nil => .nil
  | .cons k v t => .cons (splitStr k) (splitVal v) (splitO t)
end

theorem validStr_head (c : Nat) (t : Str) (h : validStr (c :: t) = true) : c < 1114112 ∧ validStr t = true := by
  cases t with
  | nil => simp [validStr] at h ⊢; exact h
  | cons b r => simp only [validStr, Bool.and_eq_true, decide_eq_true_eq] at h; exact ⟨h.1.1, h.2⟩

theorem escapeChar_unit (u : Nat) (h1 : 55296 ≤ u) (h2 : u < 65536) : escapeChar u = 92 :: 117 :: hex4 u := by
  unfold escapeChar
  simp only [show u ≠ 34 by omega, show u ≠ 92 by omega, show u ≠ 10 by omega, show u ≠ 13 by omega, show u ≠ 9 by omega,
    show u ≠ 8 by omega, show u ≠ 12 by omega, show ¬ (32 ≤ u ∧ u < 127) by omega, h2, if_false, if_true]

/-- an astral character and its two surrogates are printed as the same text (`json.dumps`, ensure_ascii) -/
theorem printStrBody_split (s : Str) (h : validStr s = true) : printStrBody (splitStr s) = printStrBody s := by
  induction s with
  | nil => rfl
  | cons c t ih =>
    obtain ⟨hc, ht⟩ := validStr_head c t h
    by_cases ha : 65536 ≤ c
    · simp only [splitStr, ha, if_true, printStrBody, ih ht]
      rw [escapeChar_unit _ (by omega) (by omega), escapeChar_unit _ (by omega) (by omega)]
      have : escapeChar c = 92 :: 117 :: hex4 (55296 + (c - 65536) / 1024) ++ 92 :: 117 :: hex4 (56320 + (c - 65536) % 1024) := by
        unfold escapeChar
        simp only [show c ≠ 34 by omega, show c ≠ 92 by omega, show c ≠ 10 by omega, show c ≠ 13 by omega,
          show c ≠ 9 by omega, show c ≠ 8 by omega, show c ≠ 12 by omega, show ¬ (32 ≤ c ∧ c < 127) by omega,
          show ¬ c < 65536 by omega, if_false]
      rw [this]
      simp
    · simp only [splitStr, ha, if_false, printStrBody, ih ht]

theorem printStr_split (s : Str) (h : validStr s = true) : printStr (splitStr s) = printStr s := by
  simp [printStr, printStrBody_split s h]

mutual
theorem printVal_split : ∀ (d : Nat) (v : JVal), v.validWith validStr = true → printVal d (splitVal v) = printVal d v
  | _, .null, _ => rfl
  | _, .bool _, _ => rfl
  | _, .int _, _ => rfl
  | _, .float _, _ => rfl
  | _, .str s, h => by simp only [JVal.validWith] at h; simp only [splitVal, printVal, printStr_split s h]
  | _, .arr .nil, _ => rfl
  | d, .arr (.cons v t), h => by
    simp only [JVal.validWith, JList.validWith, Bool.and_eq_true] at h
    simp only [splitVal, splitL, printVal, printVal_split (d + 1) v h.1, printItems_split (d + 1) t h.2]
  | _, .obj .nil, _ => rfl
  | d, .obj (.cons k v t), h => by
    simp only [JVal.validWith, JObj.validWith, Bool.and_eq_true] at h
    simp only [splitVal, splitO, printVal, printStr_split k h.1.1, printVal_split (d + 1) v h.1.2,
      printMembers_split (d + 1) t h.2]
theorem printItems_split : ∀ (d : Nat) (t : JList), t.validWith validStr = true → printItems d (splitL t) = printItems d t
  | _, .nil, _ => rfl
  | d, .cons v t, h => by
    simp only [JList.validWith, Bool.and_eq_true] at h
    simp only [splitL, printItems, printVal_split d v h.1, printItems_split d t h.2]
theorem printMembers_split : ∀ (d : Nat) (t : JObj), t.validWith validStr = true →
    printMembers d (splitO t) = printMembers d t
  | _, .nil, _ => rfl
  | d, .cons k v t, h => by
    simp only [JObj.validWith, Bool.and_eq_true] at h
    simp only [splitO, printMembers, printStr_split k h.1.1, printVal_split d v h.1.2, printMembers_split d t h.2]
end

theorem bmp_split (s : Str) (h : validStr s = true) : bmpStr (splitStr s) = true := by
  induction s with
  | nil => rfl
  | cons c t ih =>
    obtain ⟨hc, ht⟩ := validStr_head c t h
    have := ih ht
    simp only [bmpStr, List.all_eq_true, decide_eq_true_eq] at this ⊢
    by_cases ha : 65536 ≤ c
    · simp only [splitStr, ha, if_true, List.mem_cons]
      rintro x (hx | hx | hx)
      · omega
      · omega
      · exact this x hx
    · simp only [splitStr, ha, if_false, List.mem_cons]
      rintro x (hx | hx)
      · omega
      · exact this x hx

mutual
theorem valid5_split : ∀ v : JVal, v.validWith validStr = true → (splitVal v).validWith bmpStr = true
  | .null, _ => rfl
  | .bool _, _ => rfl
  | .int _, _ => rfl
  | .float f, h => by simpa [splitVal, JVal.validWith] using h
  | .str s, h => by simp only [JVal.validWith] at h; simp only [splitVal, JVal.validWith, bmp_split s h]
  | .arr xs, h => by simp only [JVal.validWith] at h; simp only [splitVal, JVal.validWith, valid5_splitL xs h]
  | .obj kvs, h => by simp only [JVal.validWith] at h; simp only [splitVal, JVal.validWith, valid5_splitO kvs h]
theorem valid5_splitL : ∀ t : JList, t.validWith validStr = true → (splitL t).validWith bmpStr = true
  | .nil, _ => rfl
  | .cons v t, h => by
    simp only [JList.validWith, Bool.and_eq_true] at h
    simp only [splitL, JList.validWith, valid5_split v h.1, valid5_splitL t h.2, Bool.and_self]
theorem valid5_splitO : ∀ t : JObj, t.validWith validStr = true → (splitO t).validWith bmpStr = true
  | .nil, _ => rfl
  | .cons k v t, h => by
    simp only [JObj.validWith, Bool.and_eq_true] at h
    simp only [splitO, JObj.validWith, bmp_split k h.1.1, valid5_split v h.1.2, valid5_splitO t h.2, Bool.and_self]
end

/-- splitting is idempotent on 16-bit units -/
theorem splitStr_bmp (s : Str) (h : bmpStr s = true) : splitStr s = s := by
  induction s with
  | nil => rfl
  | cons c t ih =>
    simp only [bmpStr, List.all_cons, Bool.and_eq_true, decide_eq_true_eq] at h
    simp only [splitStr, show ¬ 65536 ≤ c by omega, if_false, ih (by simpa [bmpStr] using h.2)]

theorem splitStr_head_not_low (d : Nat) (t' : Str) (c : Nat) (h : validStr (c :: d :: t') = true) :
    ∃ b r, splitStr (d :: t') = b :: r ∧ (isHigh c && isLow b) = false := by
  simp only [validStr, Bool.and_eq_true, decide_eq_true_eq, Bool.not_eq_true'] at h
  by_cases ha : 65536 ≤ d
  · refine ⟨55296 + (d - 65536) / 1024, (56320 + (d - 65536) % 1024) :: splitStr t', by simp only [splitStr, ha, if_true], ?_⟩
    have : isLow (55296 + (d - 65536) / 1024) = false := by
      have : d < 1114112 := (validStr_head d t' h.2).1
      simp [isLow]; omega
    simp [this]
  · exact ⟨d, splitStr t', by simp only [splitStr, ha, if_false], h.1.2⟩

/-- decoding the UTF-16 units of a string without an adjacent surrogate pair gives the string back -/
theorem joinStr_splitStr (s : Str) (h : validStr s = true) : joinStr (splitStr s) = s := by
  induction s with
  | nil => rfl
  | cons c t ih =>
    obtain ⟨hc, ht⟩ := validStr_head c t h
    by_cases ha : 65536 ≤ c
    · simp only [splitStr, ha, if_true, joinStr]
      have h1 : isHigh (55296 + (c - 65536) / 1024) = true := by simp [isHigh]; omega
      have h2 : isLow (56320 + (c - 65536) % 1024) = true := by simp [isLow]; omega
      simp only [h1, h2, Bool.and_self, if_true, ih ht, GtModel.RoundTrip.astral_arith c ha hc]
    · cases t with
      | nil => simp [splitStr, ha, joinStr]
      | cons d t' =>
        obtain ⟨b, r, hb, hnl⟩ := splitStr_head_not_low d t' c h
        have e : splitStr (c :: d :: t') = c :: b :: r := by
          rw [← hb]; simp only [splitStr, ha, if_false]
        rw [e]
        simp only [joinStr, hnl, Bool.false_eq_true, if_false]
        rw [← hb, ih ht]

theorem combineStr_split (s : Str) (h : validStr s = true) : combineStr (splitStr s) = s := by
  unfold combineStr
  rw [splitStr_bmp _ (bmp_split s h), joinStr_splitStr s h]

mutual
theorem combine_split : ∀ v : JVal, v.validWith validStr = true → combineVal (splitVal v) = v
  | .null, _ => rfl
  | .bool _, _ => rfl
  | .int _, _ => rfl
  | .float _, _ => rfl
  | .str s, h => by simp only [JVal.validWith] at h; simp only [splitVal, combineVal, combineStr_split s h]
  | .arr xs, h => by simp only [JVal.validWith] at h; simp only [splitVal, combineVal, combine_splitL xs h]
  | .obj kvs, h => by simp only [JVal.validWith] at h; simp only [splitVal, combineVal, combine_splitO kvs h]
theorem combine_splitL : ∀ t : JList, t.validWith validStr = true → combineL (splitL t) = t
  | .nil, _ => rfl
  | .cons v t, h => by
    simp only [JList.validWith, Bool.and_eq_true] at h
    simp only [splitL, combineL, combine_split v h.1, combine_splitL t h.2]
theorem combine_splitO : ∀ t : JObj, t.validWith validStr = true → combineO (splitO t) = t
  | .nil, _ => rfl
  | .cons k v t, h => by
    simp only [JObj.validWith, Bool.and_eq_true] at h
    simp only [splitO, combineO, combineStr_split k h.1.1, combine_split v h.1.2, combine_splitO t h.2]
end

/-- what the `json5` library itself returns for printed text: the document with every astral character as two
    surrogates (this is the pre-fix defect, for ALL documents) -/
theorem json5_library_splits (v : JVal) (hv : v.valid = true) : readJson5 (printJson v) = some (splitVal v) := by
  have h := read_print_json5_bmp (splitVal v) (valid5_split v hv)
  rwa [show printJson (splitVal v) = printJson v from printVal_split 0 v hv] at h

/-- JSON5, POST-FIX, ALL CODE POINTS: for every loaded document (same domain as `read_print`: code points in range, no
    high surrogate directly followed by a low one; lone surrogates and astral characters included) the JSON5 loader
    as it is now — `json5.load` followed by `_combine_surrogates` — applied to the printed text returns the document -/
theorem read_print_json5 (v : JVal) (hv : v.valid = true) : loadJson5 (printJson v) = some v := by
  unfold loadJson5
  rw [json5_library_splits v hv, Option.map_some, combine_split v hv]

/-- the former counterexample now round-trips: U+10000, and 😀 next to a lone high and a lone low surrogate -/
example : loadJson5 (printJson (.str [65536])) = some (.str [65536]) := by rfl
example : loadJson5 (printJson sample) = some sample := read_print_json5 sample (by decide)
/-- `_combine_surrogates` leaves lone surrogates alone and joins a pair -/
example : combineStr [55296, 120, 56320, 55357, 56832] = [55296, 120, 56320, 128512] := by decide

/-! ## CSV -/

/-- the reader state machine alone (no newline translation) returns every table, whatever its cells contain:
    commas, quotes, line feeds, carriage returns, empty cells, empty rows, no rows -/
theorem csv_machine (rows : List (List Str)) :
    ((printCsv rows).foldl Csv.feed {}).rows.reverse = rows ∧ ((printCsv rows).foldl Csv.feed {}).err = false := by
  have h := tableRun rows []
  have e : ({} : Csv) = ⟨.startRecord, [], [], [], false⟩ := rfl
  rw [e, h]; simp

/-- CSV: reading the printed text of a table (through a file opened with universal newlines, as the loader
    does) returns the table, provided no cell contains a carriage return — which holds for every loaded table,
    because the same universal-newlines translation already turned '\r' into '\n' when the table was loaded. -/
theorem csv_read_print (rows : List (List Str)) (h : ∀ r ∈ rows, ∀ c ∈ r, 13 ∉ c) :
    readCsv (printCsv rows) = some rows := by
  have hcr : 13 ∉ printCsv rows := by
    intro hm
    rcases mem_printCsv rows 13 hm with h1 | h1 | h1 | ⟨r, hr, c, hc, hx⟩
    · omega
    · omega
    · omega
    · exact h r hr c hc hx
  have e : ({} : Csv) = ⟨.startRecord, [], [], [], false⟩ := rfl
  simp only [readCsv, translate_id _ hcr, lastIsNl_printCsv, e, tableRun rows []]
  simp [Csv.finish]

/-- the hypothesis of `csv_read_print` cannot be dropped: a '\r' inside a cell comes back as '\n' -/
theorem csv_cr_counterexample : readCsv (printCsv [[[97, 13, 98]]]) = some [[[97, 10, 98]]] := by decide

/-- non-vacuity: `a,"b""c",` / (empty row) / `"x` newline `y"` / `""` -/
example : readCsv (printCsv [[[97], [98, 34, 99], []], [], [[120, 10, 121]], [[]]])
    = some [[[97], [98, 34, 99], []], [], [[120, 10, 121]], [[]]] :=
  csv_read_print _ (by decide)

/-! ### [audit] additions -/

-- [audit] `read_print_json5_bmp` is about the PRE-FIX JSON5 loader (`readJson5` = json5 library alone).  /repo commit 1bf0fe3
-- made `JSON5.build_tree` recombine surrogate pairs; the driver models that loader by `readDoc true` (= `readJson`, flag
-- `comb` probed by the harness).  Under the current loader the hypothesis `valid5` is the wrong one: the document below
-- satisfies `valid5` but does not round-trip (it is not `valid`; no loader produces it).
example : (JVal.str [55296, 56320]).valid5 = true ∧
    readJson (printJson (.str [55296, 56320])) = some (.str [65536]) := ⟨by decide, by rfl⟩

end GtModel.C12

/-
  C12 — printing an unedited document yields text that parses back equal (JSON, JSON5, CSV part).

  Model: `GtModel.RoundTrip` (GtModel/Model/RoundTrip.lean): `printJson` mirrors the JSON formatter on an unedited
  tree character for character (layout included); `readJson` is the specification of the loader (RFC 8259 parser
  with Python's surrogate-pair handling).  Both are tied to the real code by the `roundtrip` stream: the model
  printer's text equals the real text exactly and the model reader applied to the REAL printed text returns what
  the real loader returned.

  Full-strength statement  `∀ v, readJson (printJson v) = some v`  is FALSE for values that no loader produces:
    * a string holding a high surrogate directly followed by a low surrogate reads back as ONE character
      (`pair_hypothesis_needed`); `json.loads` never returns such a string (it combines the pair), so `valid` is
      an invariant of loaded documents, checked on every case of the stream ("valid": true);
    * a float token that is not a number literal with a fraction/exponent (`float.__repr__` always produces one;
      this is the CPython guarantee the theorem assumes; the driver re-lexes every shipped token and the stream
      fails if one does not fit).
  NOT covered by theorems (stream only): YAML, plist and XML round trips; the JSON5-only source syntax (the printed
  text is plain JSON); that `float(repr(x)) == x` (CPython).
-/
import GtModel.Proofs.RoundTripJson
import GtModel.Proofs.RoundTripCsv

namespace GtModel.C12
open GtModel.RoundTrip

/-- JSON: for every loaded document — any nesting depth, strings over all code points incl. lone surrogates,
    integers of any size, float literals — the parser applied to the printed text returns the document. -/
theorem read_print (v : JVal) (hv : v.valid = true) : readJson (printJson v) = some v :=
  readDoc_printJson true v (by
    have e : okStr true = validStr := by funext s; simp [okStr]
    rw [e]; exact hv)

/-- JSON5 with a loader that does NOT recombine escaped surrogate pairs (the `json5` library as shipped): the
    round trip holds exactly on documents whose strings stay inside the Basic Multilingual Plane. -/
theorem read_print_json5_bmp (v : JVal) (hv : v.valid5 = true) : readJson5 (printJson v) = some v :=
  readDoc_printJson false v (by
    have e : okStr false = bmpStr := by funext s; simp [okStr]
    rw [e]; exact hv)

/-- ... and fails for every astral character: U+10000 comes back as two surrogates (the defect repaired in
    `JSON5.build_tree`, after which the JSON5 loader behaves like `readJson` on printed text). -/
theorem json5_astral_counterexample :
    readJson5 (printJson (.str [65536])) = some (.str [55296, 56320]) := by rfl

/-- the `valid` hypothesis of `read_print` cannot be dropped: an (unloadable) adjacent surrogate pair is merged -/
theorem pair_hypothesis_needed :
    readJson (printJson (.str [55357, 56832])) = some (.str [128512]) := by rfl

/-! non-vacuity: concrete documents satisfying the hypotheses -/

/-- `{"a\"\\": [1, -0.5e-7, "\ud800x\udc00 😀", [], {}], "": null}` with a lone high and a lone low surrogate -/
def sample : JVal :=
  .obj (.cons [97, 34, 92]
        (.arr (.cons (.int 1) (.cons (.float (.num true [48] [53] (some (some 45, [55]))))
          (.cons (.str [55296, 120, 56320, 32, 128512]) (.cons (.arr .nil) (.cons (.obj .nil) .nil))))))
        (.cons [] .null .nil))

example : sample.valid = true := by decide
example : (JVal.arr (.cons (.str [233, 8232, 65534]) (.cons (.int (-5)) .nil))).valid5 = true := by decide

/-! ## CSV -/

/-- the reader state machine alone (no newline translation) returns every table, whatever its cells contain:
    commas, quotes, line feeds, carriage returns, empty cells, empty rows, no rows -/
theorem csv_machine (rows : List (List Str)) :
    ((printCsv rows).foldl Csv.feed {}).rows.reverse = rows ∧ ((printCsv rows).foldl Csv.feed {}).err = false := by
  have h := tableRun rows []
  have e : ({} : Csv) = ⟨.startRecord, [], [], [], false⟩ := rfl
  rw [e, h]; simp

/-- CSV: reading the printed text of a table (through a file opened with universal newlines, as the loader
    does) returns the table, provided no cell contains a carriage return — which holds for every loaded table,
    because the same universal-newlines translation already turned '\r' into '\n' when the table was loaded. -/
theorem csv_read_print (rows : List (List Str)) (h : ∀ r ∈ rows, ∀ c ∈ r, 13 ∉ c) :
    readCsv (printCsv rows) = some rows := by
  have hcr : 13 ∉ printCsv rows := by
    intro hm
    rcases mem_printCsv rows 13 hm with h1 | h1 | h1 | ⟨r, hr, c, hc, hx⟩
    · omega
    · omega
    · omega
    · exact h r hr c hc hx
  have e : ({} : Csv) = ⟨.startRecord, [], [], [], false⟩ := rfl
  simp only [readCsv, translate_id _ hcr, lastIsNl_printCsv, e, tableRun rows []]
  simp [Csv.finish]

/-- the hypothesis of `csv_read_print` cannot be dropped: a '\r' inside a cell comes back as '\n' -/
theorem csv_cr_counterexample : readCsv (printCsv [[[97, 13, 98]]]) = some [[[97, 10, 98]]] := by decide

/-- non-vacuity: `a,"b""c",` / (empty row) / `"x` newline `y"` / `""` -/
example : readCsv (printCsv [[[97], [98, 34, 99], []], [], [[120, 10, 121]], [[]]])
    = some [[[97], [98, 34, 99], []], [], [[120, 10, 121]], [[]]] :=
  csv_read_print _ (by decide)

/-! ### [audit] additions -/

-- [audit] `read_print_json5_bmp` is about the PRE-FIX JSON5 loader (`readJson5` = json5 library alone).  /repo commit 1bf0fe3
-- made `JSON5.build_tree` recombine surrogate pairs; the driver models that loader by `readDoc true` (= `readJson`, flag
-- `comb` probed by the harness).  Under the current loader the hypothesis `valid5` is the wrong one: the document below
-- satisfies `valid5` but does not round-trip (it is not `valid`; no loader produces it).
example : (JVal.str [55296, 56320]).valid5 = true ∧
    readJson (printJson (.str [55296, 56320])) = some (.str [65536]) := ⟨by decide, by rfl⟩

end GtModel.C12

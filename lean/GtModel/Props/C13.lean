/-
  C13 — any input type can be rendered in any output format and mode  (PARTIAL).
  What is modelled and proved: the DISPATCH of `GraphtageFormatter.print` — `formatter.get_formatter`, a stateful
  search through the formatter tree driven by class MRO names — over tables regenerated from /repo on every run
  (every registered formatter with its `print_*` methods and sub-formatters; every TreeNode and edit class with its
  MRO).  `dispatch_total`: for every registered root formatter (and every sub-formatter instance, and the Edited
  variants) and every concrete node class, the search RETURNS A HANDLER (no fallback needed), so rendering can never
  fail for want of a handler; edits: `GraphtageFormatter.print` tries a formatter method for the edit class, then `edit.print`,
  then (NotImplementedError) the handler of the edit's from-node, which `dispatch_total` provides;
  `string_edit_dispatch_total` / `edit_dispatch_exact` say which edit classes are resolved at the first step
  (`edit_dispatch_total`, true by an always-true disjunct, is kept but no longer registered).
  The model of the search is validated EXHAUSTIVELY on every run (stream `dispatch`: every (formatter instance,
  class) pair, plain and Edited variants, against the real `get_formatter`).
  NOT modelled: the ~1 500 lines of handler bodies.  That part of C13 is decided on the real code only, by the
  exhaustive enumeration of the configuration space in stream `matrix` (input type x output format x mode x colour
  x condensed x with/without differences); the recorded findings D11 / D18 live in handler bodies.
-/
import GtModel.Model.DispatchDriver

namespace GtModel.C13
open GtModel.Dispatch

def concrete (c : String × List String × Bool × Bool) : Bool := !c.2.2.2

/-- the MRO of the dynamically created `Edited<cls>` class of a node class -/
def editedMro (c : String × List String × Bool × Bool) : List String := ("Edited" ++ c.1) :: "EditedTreeNode" :: c.2.1

/-- every concrete node class is handled by a `print_*` METHOD OF SOME FORMATTER under every registered root
    formatter — the fallback to the node's own `print` is never needed (no disjunct: a handler is found) -/
theorem dispatch_total :
    ∀ ri ∈ List.range Gen.formatters.length, ∀ c ∈ Gen.nodeClasses, concrete c = true →
      (getFormatter Gen.formatters (some (ri, [])) c.2.1).isSome = true := by
  decide +kernel

/-- … also starting from every sub-formatter instance (sub-formatters call `self.get_formatter`), and for the
    `Edited<cls>` variants that an annotated diff tree consists of -/
theorem dispatch_total_from_subformatters :
    ∀ ri ∈ List.range Gen.formatters.length, ∀ p ∈ allPaths (Gen.formatters.getD ri (.mk "" [] [])),
      ∀ c ∈ Gen.nodeClasses, concrete c = true →
      (getFormatter Gen.formatters (some (ri, p)) c.2.1).isSome = true ∧
      (getFormatter Gen.formatters (some (ri, p)) (editedMro c)).isSome = true := by
  decide +kernel

/-- NOT REGISTERED (kept as a record): every concrete edit class has a formatter method OR an own `print` attribute.
    The right disjunct is true of EVERY row of the table (`AbstractEdit` / `AbstractCompoundEdit` define `print`), so
    this statement holds whatever the dispatch does — it says nothing about the search.  What the code really relies
    on for edits is the three-step protocol of `GraphtageFormatter.print` (tree.py): (1) a formatter method for the
    edit class, else (2) `edit.print`, and when that raises NotImplementedError (KeyValuePairEdit, StringEdit)
    (3) the handler of the edit's from-NODE — which exists for every concrete node class under every formatter
    instance by `dispatch_total` / `dispatch_total_from_subformatters`.  So rendering an edit can never fail for want
    of a handler because of step (3); the statements about step (1) that do have content are the two below. -/
theorem edit_dispatch_total :
    ∀ ri ∈ List.range Gen.formatters.length, ∀ c ∈ Gen.editClasses, concrete c = true →
      (getFormatter Gen.formatters (some (ri, [])) c.2.1).isSome = true ∨ c.2.2.1 = true := by
  decide +kernel

/-- step (1), no disjunct: `StringEdit` — the edit whose own `print` refuses (raises NotImplementedError) and whose
    rendering is formatter specific — is resolved to a `print_StringEdit` METHOD OF SOME FORMATTER under every
    registered root formatter and from every sub-formatter instance -/
theorem string_edit_dispatch_total :
    ∀ ri ∈ List.range Gen.formatters.length, ∀ p ∈ allPaths (Gen.formatters.getD ri (.mk "" [] [])),
      ∀ c ∈ Gen.editClasses, c.1 = "StringEdit" →
      (getFormatter Gen.formatters (some (ri, p)) c.2.1).isSome = true := by
  decide +kernel

/-- step (1), exactly: under every root formatter the edit classes that resolve to a formatter method are
    `StringEdit` and nothing else — every other edit class is printed by its own `print` (step 2) or, for
    `KeyValuePairEdit`, by its node's handler (step 3, `dispatch_total`).  A tripwire for the regenerated tables: a new
    `print_<Edit>` method or a renamed one changes this list. -/
theorem edit_dispatch_exact :
    ∀ ri ∈ List.range Gen.formatters.length,
      (Gen.editClasses.filter fun c => (getFormatter Gen.formatters (some (ri, [])) c.2.1).isSome).map (·.1)
        = ["StringEdit"] := by
  decide +kernel

/-- the search is not trivially successful on edit classes: `Match` resolves to NO formatter method -/
example : ∀ ri ∈ List.range Gen.formatters.length, ∀ c ∈ Gen.editClasses, c.1 = "Match" →
    (getFormatter Gen.formatters (some (ri, [])) c.2.1).isSome = false := by
  decide +kernel

/-- the search never runs out of fuel on the generated tables: doubling the fuel changes no answer -/
theorem fuel_sufficient :
    ∀ ri ∈ List.range Gen.formatters.length, ∀ c ∈ Gen.nodeClasses ++ Gen.editClasses,
      (getF (Gen.formatters.getD ri (.mk "" [] [])) c.2.1 FUEL [] []).1
        = (getF (Gen.formatters.getD ri (.mk "" [] [])) c.2.1 (2 * FUEL) [] []).1 := by
  decide +kernel

/-- the statement is not vacuous and not satisfied by an arbitrary resolver: a formatter tree without the JSON
    family leaves `XMLElement`-free classes unresolved -/
example : (getFormatter [Fmt.mk "GraphtageFormatter" [] []] (some (0, [])) ["IntegerNode", "LeafNode", "TreeNode", "object"]).isSome = false := by
  decide +kernel

-- non-vacuity
example : Gen.formatters.length ≥ 8 ∧ Gen.nodeClasses.length ≥ 30 := by decide
example : getFormatter Gen.formatters (some (2, [])) ["DictNode", "MappingNode", "MultiSetNode", "SequenceNode", "ContainerNode", "TreeNode", "Sized", "Generic", "ABC", "object"]
    = some ("JSONDictFormatter", "print_MappingNode") := by decide +kernel

end GtModel.C13

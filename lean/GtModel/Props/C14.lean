/-
  C14 — the command line honours its option spellings and an explicitly given type is the one used.
  Theorems over the L9 model `GtModel.Cli` and the file-type tables regenerated from /repo.

  Proved here (decision logic of main()):  alias_from_type, explicit_mime_wins, explicit_type_wins (both files),
  alias_k, alias_j, second_file_ignores_first_file_options.
  join_flags_independent, first_file_ignores_second_file_options.  All of them are `rfl` / `simp` / `decide` facts
  about a small faithful model; their value is the correspondence that ties the model to main().
  NOT proved (covered only by the `cli` correspondence/monitor stream): argparse's own parsing of argv into the
  namespace, "text and exit status equal what the library produces" (the library call sequence is replayed in
  Python and compared byte for byte in full-diff, -e and -d mode, with and without -f, and for a few documents as a
  real process writing to a pipe with status output on; see harness/streams/cli.py).  -e / -d / --html / --color /
  --format are not in the model.
-/
import GtModel.Model.Cli

namespace GtModel.C14
open GtModel.Cli

/-- every registered type name selects its own default MIME type (type names are distinct in the table) -/
theorem alias_from_type_table :
    ∀ e ∈ Gen.fileTypes, selectMime none (some e.1) = some e.2.1 := by decide

/-- `--from-T` ≡ `--from-mime <default MIME of T>` : the same parser is chosen for every guess -/
theorem alias_from_type (e : String × String × List String) (he : e ∈ Gen.fileTypes) (guess : Option String) :
    getFiletype guess (selectMime none (some e.1)) = getFiletype guess (selectMime (some e.2.1) none) := by
  rw [alias_from_type_table e he]; rfl

/-- an explicit MIME type decides the parser, whatever the file name suggests -/
theorem explicit_mime_wins (m : String) (ty : Option String) (g g' : Option String) :
    getFiletype g (selectMime (some m) ty) = getFiletype g' (some m) := by
  simp [selectMime, getFiletype]

/-- every registered MIME type maps to the type that registered it -/
theorem by_mime_of_default : ∀ e ∈ Gen.fileTypes, ∀ m ∈ e.2.2, getFiletype none (some m) = .ok e.1 := by decide

/-- the default MIME type of a type is one of its MIME types -/
theorem default_mem : ∀ e ∈ Gen.fileTypes, e.2.1 ∈ e.2.2 := by decide

/-- an explicit `--X-T` flag makes T's parser read the file, regardless of its name (both file positions use
    the same functions, see `parserFor`) -/
theorem explicit_type_wins (e : String × String × List String) (he : e ∈ Gen.fileTypes) (guess : Option String) :
    getFiletype guess (selectMime none (some e.1)) = .ok e.1 := by
  rw [alias_from_type_table e he]
  have h := by_mime_of_default e he e.2.1
  have := h (default_mem e he)
  simpa [getFiletype] using this

/-- the parser of the SECOND file is a function of the to-options and the second file's name only
    (the defect fixed in `fix: --to-mime was ignored…` violated exactly this on the real code) -/
theorem second_file_ignores_first_file_options (a a' : Args) (gf gf' gt : Option String)
    (h1 : a.toMime = a'.toMime) (h2 : a.toType = a'.toType) (f f' t t' : String)
    (hp : parserFor a gf gt = .ok (f, t)) (hp' : parserFor a' gf' gt = .ok (f', t')) : t = t' := by
  simp only [parserFor, bind, Except.bind] at hp hp'
  rw [h1, h2] at hp
  split at hp <;> try contradiction
  split at hp' <;> try contradiction
  split at hp <;> try contradiction
  split at hp' <;> try contradiction
  simp_all [pure, Except.pure]

-- [audit] non-vacuity: all four hypotheses at once, with first-file options and guesses that differ
example := second_file_ignores_first_file_options
  { fromType := some "yaml", toMime := some "text/x-json5" }
  { fromMime := some "text/csv", toMime := some "text/x-json5", noKeyEdits := true }
  (some "text/plain") none (some "application/xml") rfl rfl "yaml" "csv" "json5" "json5" (by decide) (by decide)

/-- `-k` ≡ `--dict-strategy none` -/
theorem alias_k (a : Args) :
    buildOpts { a with noKeyEdits := true, dictStrategy := none }
      = buildOpts { a with noKeyEdits := false, dictStrategy := some "none" } := by
  simp [buildOpts]

/-- `-j` ≡ `-jl -jd` -/
theorem alias_j (a : Args) :
    printerOpts { a with condensed := true } = printerOpts { a with condensed := false, joinLists := true, joinDictItems := true } := by
  simp [printerOpts]

/-- the two join flags are independent: without `-j`, `-jd` does not touch join_lists and `-jl` does not touch
    join_dict_items (second audit: a `-jd implies -jl` change went unnoticed because neither flag was ever given alone;
    the cli stream now gives each alone and compares the printer options and the text with the library) -/
theorem join_flags_independent (a : Args) (b : Bool) :
    (printerOpts { a with joinDictItems := b }).1 = (printerOpts a).1 ∧
    (printerOpts { a with joinLists := b }).2 = (printerOpts a).2 := by
  simp [printerOpts]

example : printerOpts { joinDictItems := true } = (false, true) := rfl
example : printerOpts { joinLists := true } = (true, false) := rfl

/-- the FIRST file's parser is a function of the from-options and the first file's name only (counterpart of
    `second_file_ignores_first_file_options`; a merged from/to lookup loop violated both on a seeded change) -/
theorem first_file_ignores_second_file_options (a a' : Args) (gf gt gt' : Option String)
    (h1 : a.fromMime = a'.fromMime) (h2 : a.fromType = a'.fromType) (f f' t t' : String)
    (hp : parserFor a gf gt = .ok (f, t)) (hp' : parserFor a' gf gt' = .ok (f', t')) : f = f' := by
  simp only [parserFor, bind, Except.bind] at hp hp'
  rw [h1, h2] at hp
  split at hp <;> try contradiction
  split at hp' <;> try contradiction
  split at hp <;> try contradiction
  split at hp' <;> try contradiction
  simp_all [pure, Except.pure]

example := first_file_ignores_second_file_options
  { fromType := some "json", toType := some "pickle" } { fromType := some "json", toMime := some "text/csv" }
  none none (some "text/plain") rfl rfl "json" "json" "pickle" "csv" (by decide) (by decide)

/-- `--dict-strategy auto` is the default -/
theorem default_is_auto (a : Args) (h : a.noKeyEdits = false) :
    buildOpts { a with dictStrategy := none } = buildOpts { a with dictStrategy := some "auto" } := by
  simp [buildOpts, h]

-- [audit] explicit_mime_wins, alias_k, alias_j hold by `rfl` (they unfold the model's definitions)
example (m : String) (ty g g' : Option String) : getFiletype g (selectMime (some m) ty) = getFiletype g' (some m) := rfl
example (a : Args) : buildOpts { a with noKeyEdits := true, dictStrategy := none }
      = buildOpts { a with noKeyEdits := false, dictStrategy := some "none" } := rfl
example (a : Args) : printerOpts { a with condensed := true }
      = printerOpts { a with condensed := false, joinLists := true, joinDictItems := true } := rfl
-- [audit] non-vacuity of default_is_auto's hypothesis
example := default_is_auto { fromType := some "json", noListEdits := true } rfl

-- non-vacuity: the table is not empty and contains the types the property names
example : ("yaml", "application/x-yaml", ["application/x-yaml", "application/yaml", "text/yaml", "text/x-yaml", "text/vnd.yaml"]) ∈ Gen.fileTypes := by decide
example : parserFor { fromType := some "yaml", toMime := some "text/x-json5" } (some "text/plain") none = .ok ("yaml", "json5") := by decide

end GtModel.C14

/-
  C15 — "Minimum-weight assignment is valid and optimal".

  All theorems are about `GtModel.Assign.minWeightBipartiteMatching solve inp`, the exact model of
  `graphtage.matching.min_weight_bipartite_matching` with the external solver (`scipy.optimize.linear_sum_assignment`)
  as the parameter `solve`.  They hold for EVERY solver whose answer on the matrix it is shown satisfies the
  contract (`SolverValidOn` = structural part, `SolverMeetsContractOn` = structural part + minimality), for tables of
  any size.  Weights are `Int`s: `int` weights as they are, `bool` as 0/1, `float` weights (dyadic rationals) scaled by
  the common power-of-two denominator `inp.unit` — comparisons and sums are invariant under that scaling and the only
  constant in the code, the `+ 1` of the sentinel, is scaled along (`+ inp.unit`).

  The validity / optimality theorems are stated for the value the function RETURNS (`… = .ok res`); that it returns is
  `minWeight_ok_on_domain` (section "totality"): weights ≥ 0 of one Python type, `int` weights and sentinel < 2^63.
  Outside that domain: `error_domain` lists the raising branches; float tables reaching 2^53 (model ≠ code: the
  sentinel's `+ 1` is absorbed in float64) and int tables reaching 2^63 are not claimed.
-/
import GtModel.Proofs.Assign

namespace GtModel.C15
open GtModel.Assign GtModel.Gen

/-! ## dtype table (regenerated from /repo on every run) -/

/-- `get_dtype` only returns a dtype of the table whose TRUE numpy range contains `[lo, hi]`, so
    `np.array(weights, dtype=get_dtype(min_edge, max_edge))` neither wraps nor raises. -/
theorem get_dtype_sound {lo hi : Int} {d : DtypeRow} (h : getDtype lo hi = some d) :
    d.trueLo ≤ lo ∧ hi ≤ d.trueHi := getDtype_sound h

/-- The fallback `np.dtype(int)` is int64 with the usual range. -/
theorem fallback_is_int64 :
    fallbackDtype.name = "int64" ∧ fallbackDtype.trueLo = -(2 ^ 63) ∧ fallbackDtype.trueHi = 2 ^ 63 - 1 := by decide

/-- The fallback is reached only for ranges that do NOT fit int64: whenever `get_dtype` falls through the table,
    the numpy conversion raises `OverflowError` (the model's `fitsDtype` check fails). -/
theorem get_dtype_fallback {lo hi : Int} (h : getDtype lo hi = none) :
    getDtypeRow lo hi = fallbackDtype ∧ fitsDtype fallbackDtype lo hi = false := by
  refine ⟨by simp [getDtypeRow, h], ?_⟩
  unfold getDtype at h
  rw [List.find?_eq_none] at h
  have := h ⟨-9223372036854775808, 9223372036854775808, "int64", -9223372036854775808, 9223372036854775807⟩
    (by decide)
  simp only [Bool.and_eq_true, decide_eq_true_eq, not_and] at this
  unfold fitsDtype fallbackDtype
  simp only [Bool.and_eq_false_iff, decide_eq_false_iff_not]
  omega

/-- A dtype chosen from the table always fits (no `OverflowError` from a table row). -/
theorem no_overflow_from_table {lo hi : Int} {d : DtypeRow} (h : getDtype lo hi = some d) :
    fitsDtype d lo hi = true := by
  have := getDtype_sound h
  simp [fitsDtype, this.1, this.2]

example : getDtype 0 255 = some ⟨0, 256, "uint8", 0, 255⟩ := by decide
example : getDtype 0 256 = some ⟨0, 65536, "uint16", 0, 65535⟩ := by decide
example : getDtype (-1) 9223372036854775808 = none := by decide

/-! ## the solver contract, restricted to the matrix the function actually shows -/

/-- Structural part: distinct in-range rows, distinct in-range columns, exactly `min n m` pairs. -/
def SolverValidOn (solve : Dense → Ans) (inp : Input) : Prop :=
  ∀ p, prepare inp = .ok (some p) → (solve (p.dense inp)).Valid inp.n inp.m

/-- Full contract: additionally of minimum total on the matrix shown. -/
def SolverMeetsContractOn (solve : Dense → Ans) (inp : Input) : Prop :=
  ∀ p, prepare inp = .ok (some p) → Contract (p.dense inp) (solve (p.dense inp))

theorem SolverMeetsContractOn.valid {solve : Dense → Ans} {inp : Input} (h : SolverMeetsContractOn solve inp) :
    SolverValidOn solve inp := fun p hp => (h p hp).1

/-- The executable check the driver runs on every recorded scipy answer implies the contract
    (the brute force enumerates every candidate assignment). -/
theorem validate_sound {d : Dense} {a : Ans} (h : validateB d a = true) : Contract d a := by
  unfold validateB at h
  rw [Bool.and_eq_true, decide_eq_true_eq] at h
  exact ⟨h.1, isOptimalB_sound h.2⟩

/-- What the driver does with a recorded scipy answer `a`: if the executable check passes on the matrix the model
    shows, the constant solver `fun _ => a` meets the contract on this input, so every theorem below applies to
    the result the driver computes from it. -/
theorem recorded_answer_meets_contract {inp : Input} {p : Prep} {a : Ans}
    (hp : prepare inp = .ok (some p)) (h : validateB (p.dense inp) a = true) :
    SolverMeetsContractOn (fun _ => a) inp := by
  intro p' hp'
  rw [hp] at hp'
  simp only [Except.ok.injEq, Option.some.injEq] at hp'
  subst hp'
  exact validate_sound h

/-- Results are either empty (early return) or `finish` of the solver's answer. -/
theorem result_cases {solve : Dense → Ans} {inp : Input} {res : List Pair}
    (h : minWeightBipartiteMatching solve inp = .ok res) :
    (prepare inp = .ok none ∧ res = []) ∨
    ∃ p, prepare inp = .ok (some p) ∧ res = finish inp p (solve (p.dense inp)) := by
  unfold minWeightBipartiteMatching at h
  split at h
  · cases h
  · left; simp only [Except.ok.injEq] at h; exact ⟨by assumption, h.symm⟩
  · right; rename_i p hp; simp only [Except.ok.injEq] at h; exact ⟨p, hp, h.symm⟩

/-! ## validity, for every table (sparse or complete, any type) -/

/-- The returned pairing is one-to-one: distinct from-indices and distinct to-indices. -/
theorem result_is_injection {solve : Dense → Ans} {inp : Input} {res : List Pair}
    (hs : SolverValidOn solve inp) (h : minWeightBipartiteMatching solve inp = .ok res) :
    (res.map (·.f)).Nodup ∧ (res.map (·.t)).Nodup := by
  rcases result_cases h with ⟨_, rfl⟩ | ⟨p, hp, rfl⟩
  · simp
  · obtain ⟨_, _, hrn, hcn, _, _⟩ := hs p hp
    exact ⟨(finish_f_sublist inp p _).nodup hrn, (finish_t_sublist inp p _).nodup hcn⟩

/-- Every reported pair lies inside the table and had a non-`None` weight. -/
theorem only_existing_pairs {solve : Dense → Ans} {inp : Input} {res : List Pair}
    (hs : SolverValidOn solve inp) (h : minWeightBipartiteMatching solve inp = .ok res) :
    ∀ q ∈ res, q.f < inp.n ∧ q.t < inp.m ∧ (inp.cell q.f q.t).isSome = true := by
  intro q hq
  rcases result_cases h with ⟨_, rfl⟩ | ⟨p, hp, rfl⟩
  · cases hq
  · obtain ⟨_, _, _, _, hrl, hcl⟩ := hs p hp
    obtain ⟨hz, hc, _⟩ := mem_finish hq
    have := List.of_mem_zip hz
    exact ⟨hrl _ this.1, hcl _ this.2, by simp [hc]⟩

/-- The reported weight (and its Python type) is the table's weight for that pair — for ANY solver answer. -/
theorem reports_true_weights {solve : Dense → Ans} {inp : Input} {res : List Pair}
    (h : minWeightBipartiteMatching solve inp = .ok res) :
    ∀ q ∈ res, inp.cell q.f q.t = some ⟨q.ty, q.w⟩ := by
  intro q hq
  rcases result_cases h with ⟨_, rfl⟩ | ⟨p, hp, rfl⟩
  · cases hq
  · exact (mem_finish hq).2.1

/-! ## complete tables: maximum cardinality and minimum total -/

/-- `bool` weights are 0 or 1 (scaled: 0 or `unit`) — what `np.array(..., dtype=bool)` preserves. -/
def BoolOK (inp : Input) : Prop := ∀ i j c, inp.cell i j = some c → c.ty = .bool → c.w = 0 ∨ c.w = inp.unit

/-- A complete table without any existing pair is an empty table. -/
theorem complete_none_empty {inp : Input} (hcomplete : hasNull inp = false) (hp : prepare inp = .ok none) :
    min inp.n inp.m = 0 := by
  unfold prepare at hp
  split at hp
  · rename_i hpres
    by_cases hz : 0 < inp.n ∧ 0 < inp.m
    · obtain ⟨c, hc⟩ := cell_some_of_complete hcomplete hz.1 hz.2
      have : c ∈ present inp := mem_present.2 ⟨0, 0, hz.1, hz.2, hc⟩
      rw [hpres] at this
      cases this
    · omega
  · split at hp
    · cases hp
    · split at hp
      · cases hp
      · split at hp <;> cases hp

/-- With no missing pair the function pairs as many items as possible: exactly `min n m`. -/
theorem pairs_min_n_m {solve : Dense → Ans} {inp : Input} {res : List Pair}
    (hs : SolverValidOn solve inp) (hcomplete : hasNull inp = false)
    (h : minWeightBipartiteMatching solve inp = .ok res) :
    res.length = min inp.n inp.m := by
  rcases result_cases h with ⟨hp, rfl⟩ | ⟨p, hp, rfl⟩
  · rw [complete_none_empty hcomplete hp]; rfl
  · obtain ⟨hr, hc, _, _, hrl, hcl⟩ := hs p hp
    have hpn := (prepare_some hp).1
    rw [finish_eq]
    have hall : ∀ ft ∈ (solve (p.dense inp)).rows.zip (solve (p.dense inp)).cols,
        ∃ c, inp.cell ft.1 ft.2 = some c ∧ (p.hasNull = false ∨ c.w < p.null) ∧ filledW inp 0 ft.1 ft.2 = c.w := by
      intro ft hft
      have hm := List.of_mem_zip (a := ft.1) (b := ft.2) hft
      obtain ⟨c, hc⟩ := cell_some_of_complete hcomplete (hrl _ hm.1) (hcl _ hm.2)
      exact ⟨c, hc, Or.inl (by rw [hpn, hcomplete]), by simp [filledW, hc]⟩
    rw [(keep_all_sum (filledW inp 0) _ hall).1, List.length_zip, hr, hc]
    simp

/-- On a complete table the matrix shown to the solver is the table itself. -/
theorem shown_eq_table {inp : Input} {p : Prep} (hb : BoolOK inp) (hcomplete : hasNull inp = false)
    (hp : prepare inp = .ok (some p)) {i j : Nat} (hi : i < inp.n) (hj : j < inp.m) :
    ∃ c, inp.cell i j = some c ∧ p.shown i j = c.w := by
  obtain ⟨_, _, hnb, hbool, c0, rest, hpres, hc0, hrest⟩ := prepare_some hp
  obtain ⟨c, hc⟩ := cell_some_of_complete hcomplete hi hj
  refine ⟨c, hc, ?_⟩
  have hcty : c.ty = p.ty := by
    have hm : c ∈ present inp := mem_present.2 ⟨i, j, hi, hj, hc⟩
    rw [hpres] at hm
    rcases List.mem_cons.1 hm with rfl | hm
    · exact hc0
    · exact hrest c hm
  by_cases hty : p.ty = .bool
  · rw [hbool hty]
    simp only [filledW, hc]
    rcases hb i j c hc (by rw [hcty, hty]) with h0 | h1
    · simp [h0]
    · by_cases hu : inp.unit = 0
      · simp [h1, hu]
      · simp [h1, hu]
  · rw [hnb hty]
    simp [filledW, hc]

theorem total_congr {e1 e2 : Nat → Nat → Int} {b : Ans}
    (h : ∀ ft ∈ b.rows.zip b.cols, e1 ft.1 ft.2 = e2 ft.1 ft.2) : total e1 b = total e2 b := by
  unfold total
  rw [List.map_congr_left h]

/-- With no missing pair the total reported weight is the smallest achievable: it does not exceed the total of
    ANY one-to-one assignment `b` of `min n m` pairs, measured with the table's own weights `w`.
    (`w` is any function that agrees with the table on existing pairs — no default value is invented.) -/
theorem total_is_minimum {solve : Dense → Ans} {inp : Input} {res : List Pair}
    (hs : SolverMeetsContractOn solve inp) (hb : BoolOK inp) (hcomplete : hasNull inp = false)
    (h : minWeightBipartiteMatching solve inp = .ok res)
    (w : Nat → Nat → Int) (hw : ∀ i j c, inp.cell i j = some c → w i j = c.w)
    (b : Ans) (hbv : b.Valid inp.n inp.m) :
    (res.map (·.w)).sum ≤ total w b := by
  rcases result_cases h with ⟨hp, rfl⟩ | ⟨p, hp, rfl⟩
  · have h0 := complete_none_empty hcomplete hp
    obtain ⟨hr, _, _, _, _, _⟩ := hbv
    rw [h0] at hr
    have : b.rows = [] := List.eq_nil_of_length_eq_zero hr
    simp [total, this]
  · obtain ⟨⟨hr, hc, _, _, hrl, hcl⟩, hmin⟩ := hs p hp
    have hpn := (prepare_some hp).1
    have hall : ∀ ft ∈ (solve (p.dense inp)).rows.zip (solve (p.dense inp)).cols,
        ∃ c, inp.cell ft.1 ft.2 = some c ∧ (p.hasNull = false ∨ c.w < p.null) ∧ p.shown ft.1 ft.2 = c.w := by
      intro ft hft
      have hm := List.of_mem_zip (a := ft.1) (b := ft.2) hft
      obtain ⟨c, hc, hsh⟩ := shown_eq_table hb hcomplete hp (hrl _ hm.1) (hcl _ hm.2)
      exact ⟨c, hc, Or.inl (by rw [hpn, hcomplete]), hsh⟩
    rw [finish_eq, (keep_all_sum p.shown _ hall).2]
    have h1 := hmin b hbv
    have h2 : total (p.dense inp).ent b = total w b := by
      apply total_congr
      intro ft hft
      have hm := List.of_mem_zip (a := ft.1) (b := ft.2) hft
      obtain ⟨c, hc, hsh⟩ := shown_eq_table hb hcomplete hp (hbv.2.2.2.2.1 _ hm.1) (hbv.2.2.2.2.2 _ hm.2)
      show p.shown ft.1 ft.2 = w ft.1 ft.2
      rw [hsh, hw _ _ c hc]
    rw [← h2]
    exact h1

/-! ## sparse tables: the sentinel -/

/-- For non-negative weights the sentinel `max column sum + 1` exceeds every real weight, every column sum, and the
    running `max_edge` — the condition of `assert null_edge_value > max_edge`. -/
theorem null_value_dominates {inp : Input} (hn : NonNeg inp) (hu : 1 ≤ inp.unit) {nv : Int}
    (h : nullValue inp = some nv) :
    (∀ i j c, i < inp.n → j < inp.m → inp.cell i j = some c → c.w < nv) ∧
    (∀ j, j < inp.m → colSum inp j < nv) ∧
    (∀ c rest, present inp = c :: rest → maxEdge c rest < nv) := by
  refine ⟨fun i j c hi hj hc => weight_lt_null hn hu h hi hj hc, fun j hj => colSum_lt_null hu h hj, ?_⟩
  intro c rest hpres
  have hmem : ∀ e ∈ present inp, e.w < nv := by
    intro e he
    obtain ⟨i, j, hi, hj, hc⟩ := mem_present.1 he
    exact weight_lt_null hn hu h hi hj hc
  rw [hpres] at hmem
  exact maxEdge_lt (hmem c List.mem_cons_self) (fun e he => hmem e (List.mem_cons_of_mem _ he))

/-- ... so on the domain graphtage uses (costs ≥ 0) the `assert` never fires. -/
theorem assert_never_fires {inp : Input} (hn : NonNeg inp) (hu : 1 ≤ inp.unit) :
    prepare inp ≠ .error .assertionError := by
  intro hp
  unfold prepare at hp
  split at hp
  · cases hp
  · rename_i c rest hpres
    split at hp
    · cases hp
    · split at hp
      · rename_i e hns
        simp only [Except.error.injEq] at hp
        subst hp
        unfold nullStep at hns
        split at hns
        · split at hns
          · cases hns
          · rename_i nv hnv
            split at hns
            · cases hns
            · rename_i hle
              exact hle ((null_value_dominates hn hu hnv).2.2 c rest hpres)
        · cases hns
      · split at hp
        · rename_i e hcv
          simp only [Except.error.injEq] at hp
          subst hp
          unfold convert at hcv
          split at hcv
          · cases hcv
          · cases hcv
          · dsimp only at hcv; split at hcv <;> cases hcv
        · cases hp

/-- ... and the final filter `weights[f][t] < null_edge_value` removes exactly the non-existing pairs of the solver's
    answer: the result is the answer restricted to existing pairs, each with its true weight. -/
theorem filter_removes_exactly_missing {solve : Dense → Ans} {inp : Input} {p : Prep} {res : List Pair}
    (hn : NonNeg inp) (hu : 1 ≤ inp.unit) (hs : SolverValidOn solve inp)
    (hp : prepare inp = .ok (some p)) (h : minWeightBipartiteMatching solve inp = .ok res) :
    res = ((solve (p.dense inp)).rows.zip (solve (p.dense inp)).cols).filterMap fun ft =>
      (inp.cell ft.1 ft.2).map fun c => (⟨ft.1, ft.2, c.ty, c.w⟩ : Pair) := by
  rcases result_cases h with ⟨hp', _⟩ | ⟨p', hp', rfl⟩
  · rw [hp] at hp'; cases hp'
  · rw [hp] at hp'
    simp only [Except.ok.injEq, Option.some.injEq] at hp'
    subst hp'
    obtain ⟨_, _, _, _, hrl, hcl⟩ := hs p hp
    obtain ⟨hpn, hnull, _⟩ := prepare_some hp
    rw [finish_eq]
    apply filterMap_congr'
    intro ft hft
    have hm := List.of_mem_zip (a := ft.1) (b := ft.2) hft
    unfold keep
    cases hc : inp.cell ft.1 ft.2 with
    | none => rfl
    | some c =>
      simp only [Option.map_some]
      by_cases hh : p.hasNull = true
      · have := weight_lt_null hn hu (hnull hh) (hrl _ hm.1) (hcl _ hm.2) hc
        simp [this]
      · simp [hh]

/-! ## totality: where the function returns and where it raises

  `minWeightBipartiteMatching` has exactly three raising branches before the solver call (`prepare`) and none after
  it; the solver is a total function here (that scipy itself returns on the matrix shown is part of the contract).
  * `minWeight_ok_on_domain` : on the ADMITTED DOMAIN — weights ≥ 0, one Python type, `unit ≥ 1`, and for `int`
    tables every weight (and, when a pair is missing, the sentinel `max column sum + 1`) below 2^63 — it returns.
  * `error_domain` : the three raising branches, each with the condition on the table under which it is taken;
    the examples below show each is taken (the audit's boundary tables `[[-1, 2^63]]`, `[[2^64-1, None]]`).
  OUTSIDE the domain, and outside what the model is claimed for:
    - `int` tables with a weight or sentinel ≥ 2^63 (numpy `OverflowError` unless everything is ≥ 0 and < 2^64) or a
      negative weight next to a missing pair (`AssertionError` possible);
    - `float` tables whose weights or column sums reach 2^53 (scaled: `2^53 * unit`): the model's arithmetic is exact,
      Python's is not — `[[2.0**53, None]]` raises `AssertionError` in the real code because the sentinel's `+ 1` is
      absorbed, while the model returns.  The correspondence (and every theorem read as a statement about the code)
      is claimed for float tables only below that bound. -/

/-- all existing pairs carry one Python type (`int`, `bool` or `float`) -/
def SingleType (inp : Input) : Prop := ∀ c ∈ present inp, ∀ e ∈ present inp, e.ty = c.ty

/-- every weight is below `B`, and so is the sentinel `column sum + 1` of every column when a pair is missing -/
def Below (inp : Input) (B : Int) : Prop :=
  (∀ i j c, i < inp.n → j < inp.m → inp.cell i j = some c → c.w < B) ∧
  (hasNull inp = true → ∀ j, j < inp.m → colSum inp j + (inp.unit : Int) < B)

theorem foldl_max_mem (l : List Int) (x : Int) :
    l.foldl (fun a b => if a < b then b else a) x = x ∨ l.foldl (fun a b => if a < b then b else a) x ∈ l := by
  induction l generalizing x with
  | nil => simp
  | cons z zs ih =>
    simp only [List.foldl_cons, List.mem_cons]
    split
    · rcases ih z with h | h
      · right; left; exact h
      · right; right; exact h
    · rcases ih x with h | h
      · left; exact h
      · right; right; exact h

theorem maxOfList_mem {l : List Int} {s : Int} (h : maxOfList l = some s) : s ∈ l := by
  cases l with
  | nil => simp [maxOfList] at h
  | cons x xs =>
    simp only [maxOfList, Option.some.injEq] at h
    subst h
    rcases foldl_max_mem xs x with h | h
    · rw [h]; exact List.mem_cons_self
    · exact List.mem_cons_of_mem _ h

theorem minEdge_ge {c : Cell} {rest : List Cell} {B : Int} (hc : B ≤ c.w) (hr : ∀ e ∈ rest, B ≤ e.w) :
    B ≤ minEdge c rest := by
  unfold minEdge
  generalize c.w = x at hc
  induction rest generalizing x with
  | nil => simpa
  | cons e es ih =>
    simp only [List.foldl_cons]
    apply ih
    · intro e' he'; exact hr e' (List.mem_cons_of_mem _ he')
    · split
      · exact hr e (List.mem_cons_self)
      · exact hc

/-- any range inside int64 is served by a row of the table (the last row at the latest) -/
theorem getDtype_some_of_int64 {lo hi : Int} (h1 : -(2 ^ 63) ≤ lo) (h2 : hi < 2 ^ 63) : ∃ d, getDtype lo hi = some d := by
  have : (getDtype lo hi).isSome = true := by
    unfold getDtype
    rw [List.find?_isSome]
    refine ⟨⟨-9223372036854775808, 9223372036854775808, "int64", -9223372036854775808, 9223372036854775807⟩,
      by decide, ?_⟩
    simp only [Bool.and_eq_true, decide_eq_true_eq]
    omega
  exact Option.isSome_iff_exists.1 this

theorem nullValue_lt {inp : Input} {B nv : Int} (h : nullValue inp = some nv)
    (hb : ∀ j, j < inp.m → colSum inp j + (inp.unit : Int) < B) : nv < B := by
  unfold nullValue at h
  cases hm : maxOfList ((List.range inp.m).map (colSum inp)) with
  | none => simp [hm] at h
  | some s =>
    simp only [hm, Option.map_some, Option.some.injEq] at h
    subst h
    have := maxOfList_mem hm
    simp only [List.mem_map, List.mem_range] at this
    obtain ⟨j, hj, rfl⟩ := this
    exact hb j hj

/-- the part before the solver call does not raise on the admitted domain -/
theorem prepare_ok_on_domain {inp : Input} (hn : NonNeg inp) (hu : 1 ≤ inp.unit) (ht : SingleType inp)
    (hb : ∀ c ∈ present inp, c.ty = .int → Below inp (2 ^ 63)) : ∃ p, prepare inp = .ok p := by
  unfold prepare
  split
  · exact ⟨none, rfl⟩
  · rename_i c rest hpres
    have hcm : c ∈ present inp := by rw [hpres]; exact List.mem_cons_self
    have hall : (rest.all fun e => decide (e.ty = c.ty)) = true := by
      rw [List.all_eq_true]
      intro e he
      simpa using ht c hcm e (by rw [hpres]; exact List.mem_cons_of_mem _ he)
    simp only [hall, Bool.not_true, Bool.false_eq_true, if_false]
    obtain ⟨i0, j0, hi0, hj0, hc0⟩ := mem_present.1 hcm
    obtain ⟨nv, hnv⟩ := nullValue_isSome (inp := inp) (by omega)
    have hdom := (null_value_dominates hn hu hnv).2.2 c rest hpres
    -- the sentinel step
    have hns : ∃ null mx', nullStep inp (maxEdge c rest) = .ok (null, mx') ∧
        (hasNull inp = true → mx' = nv) ∧ (hasNull inp = false → mx' = maxEdge c rest) := by
      unfold nullStep
      by_cases hh : hasNull inp = true
      · simp only [hh, if_true, hnv]
        have : nv > maxEdge c rest := hdom
        simp only [this, if_true]
        exact ⟨nv, nv, rfl, fun _ => rfl, fun h => by simp at h⟩
      · have hh' : hasNull inp = false := by simpa using hh
        simp only [hh', Bool.false_eq_true, if_false]
        exact ⟨0, _, rfl, fun h => by simp at h, fun _ => rfl⟩
    obtain ⟨null, mx', hns, hmx1, hmx2⟩ := hns
    simp only [hns]
    -- the conversion
    have hcv : ∃ p, convert inp c.ty null (minEdge c rest) mx' = .ok p := by
      unfold convert
      cases hty : c.ty with
      | bool => exact ⟨_, rfl⟩
      | float => exact ⟨_, rfl⟩
      | int =>
        have hB := hb c hcm hty
        have hmn : (0 : Int) ≤ minEdge c rest := by
          apply minEdge_ge (hn _ _ _ hc0)
          intro e he
          obtain ⟨i, j, _, _, hc⟩ := mem_present.1 (by rw [hpres]; exact List.mem_cons_of_mem _ he : e ∈ present inp)
          exact hn _ _ _ hc
        have hmx : mx' < 2 ^ 63 := by
          by_cases hh : hasNull inp = true
          · rw [hmx1 hh]; exact nullValue_lt hnv (hB.2 hh)
          · have hh' : hasNull inp = false := by simpa using hh
            rw [hmx2 hh']
            apply maxEdge_lt (hB.1 _ _ _ hi0 hj0 hc0)
            intro e he
            obtain ⟨i, j, hi, hj, hc⟩ := mem_present.1 (by rw [hpres]; exact List.mem_cons_of_mem _ he : e ∈ present inp)
            exact hB.1 _ _ _ hi hj hc
        obtain ⟨d, hd⟩ := getDtype_some_of_int64 (lo := minEdge c rest) (hi := mx') (by omega) hmx
        have hrow : getDtypeRow (minEdge c rest) mx' = d := by simp [getDtypeRow, hd]
        simp only [hrow, no_overflow_from_table hd, if_true]
        exact ⟨_, rfl⟩
    obtain ⟨p, hp⟩ := hcv
    simp only [hp]
    exact ⟨some p, rfl⟩

/-- C15 totality: on the admitted domain — non-negative weights of ONE Python type, `unit ≥ 1`, and for `int` tables
    every weight and (with a missing pair) every `column sum + 1` below 2^63 — `min_weight_bipartite_matching` RETURNS,
    whatever the solver answers; with `result_is_injection`, `only_existing_pairs`, `reports_true_weights`,
    `pairs_min_n_m`, `total_is_minimum` (whose hypothesis `… = .ok res` is thereby discharged) the returned pairing is
    valid and optimal. -/
theorem minWeight_ok_on_domain (solve : Dense → Ans) {inp : Input} (hn : NonNeg inp) (hu : 1 ≤ inp.unit)
    (ht : SingleType inp) (hb : ∀ c ∈ present inp, c.ty = .int → Below inp (2 ^ 63)) :
    ∃ res, minWeightBipartiteMatching solve inp = .ok res := by
  obtain ⟨p, hp⟩ := prepare_ok_on_domain hn hu ht hb
  unfold minWeightBipartiteMatching
  rw [hp]
  cases p with
  | none => exact ⟨[], rfl⟩
  | some p => exact ⟨_, rfl⟩

/-- … and the conclusions of the validity theorems hold for what it returns (one statement, no `= .ok` hypothesis) -/
theorem minWeight_valid_on_domain (solve : Dense → Ans) {inp : Input} (hn : NonNeg inp) (hu : 1 ≤ inp.unit)
    (ht : SingleType inp) (hb : ∀ c ∈ present inp, c.ty = .int → Below inp (2 ^ 63))
    (hs : SolverValidOn solve inp) :
    ∃ res, minWeightBipartiteMatching solve inp = .ok res ∧
      (res.map (·.f)).Nodup ∧ (res.map (·.t)).Nodup ∧
      (∀ q ∈ res, q.f < inp.n ∧ q.t < inp.m ∧ inp.cell q.f q.t = some ⟨q.ty, q.w⟩) ∧
      (hasNull inp = false → res.length = min inp.n inp.m) := by
  obtain ⟨res, h⟩ := minWeight_ok_on_domain solve hn hu ht hb
  refine ⟨res, h, (result_is_injection hs h).1, (result_is_injection hs h).2, ?_, fun hc => pairs_min_n_m hs hc h⟩
  intro q hq
  exact ⟨(only_existing_pairs hs h q hq).1, (only_existing_pairs hs h q hq).2.1, reports_true_weights h q hq⟩

/-- the domain on which it RAISES: the three error branches of the model, each with its cause
    (`ValueError`: two existing pairs of different Python types; `AssertionError`: a missing pair and the sentinel
    `max column sum + 1` not above the largest weight — needs a negative weight; `OverflowError`: an `int` table whose
    range [least weight, largest weight or sentinel] does not fit int64) -/
theorem error_domain {solve : Dense → Ans} {inp : Input} {e : Err} (h : minWeightBipartiteMatching solve inp = .error e) :
    (e = .valueError ∧ ¬ SingleType inp) ∨
    (e = .assertionError ∧ hasNull inp = true ∧
      ∃ c rest nv, present inp = c :: rest ∧ nullValue inp = some nv ∧ nv ≤ maxEdge c rest) ∨
    (e = .overflowError ∧ ∃ c rest mx, present inp = c :: rest ∧ c.ty = .int ∧
      (hasNull inp = true → nullValue inp = some mx) ∧ (hasNull inp = false → mx = maxEdge c rest) ∧
      ¬ (-(2 ^ 63) ≤ minEdge c rest ∧ mx < 2 ^ 63)) := by
  have hp : prepare inp = .error e := by
    unfold minWeightBipartiteMatching at h
    split at h
    · rename_i e' he; simp only [Except.error.injEq] at h; subst h; exact he
    · cases h
    · cases h
  clear h
  unfold prepare at hp
  split at hp
  · cases hp
  · rename_i c rest hpres
    have hcm : c ∈ present inp := by rw [hpres]; exact List.mem_cons_self
    split at hp
    · rename_i hall
      simp only [Except.error.injEq] at hp
      subst hp
      left
      refine ⟨rfl, fun ht => ?_⟩
      have : (rest.all fun e => decide (e.ty = c.ty)) = true := by
        rw [List.all_eq_true]
        intro e he
        simpa using ht c hcm e (by rw [hpres]; exact List.mem_cons_of_mem _ he)
      simp [this] at hall
    · obtain ⟨i0, j0, hi0, hj0, hc0⟩ := mem_present.1 hcm
      obtain ⟨nv, hnv⟩ := nullValue_isSome (inp := inp) (by omega)
      split at hp
      · rename_i e' hns
        simp only [Except.error.injEq] at hp
        subst hp
        unfold nullStep at hns
        by_cases hh : hasNull inp = true
        · simp only [hh, if_true, hnv] at hns
          split at hns
          · cases hns
          · rename_i hle
            simp only [Except.error.injEq] at hns
            subst hns
            right; left
            exact ⟨rfl, hh, c, rest, nv, hpres, hnv, by omega⟩
        · have hh' : hasNull inp = false := by simpa using hh
          simp [hh'] at hns
      · rename_i null mx' hns
        have hs := nullStep_ok hns
        split at hp
        · rename_i e' hcv
          simp only [Except.error.injEq] at hp
          subst hp
          unfold convert at hcv
          split at hcv
          · cases hcv
          · cases hcv
          · rename_i hty
            dsimp only at hcv
            split at hcv
            · cases hcv
            · rename_i hfit
              simp only [Except.error.injEq] at hcv
              subst hcv
              right; right
              refine ⟨rfl, c, rest, mx', hpres, hty, ?_, ?_, ?_⟩
              · intro hh; rw [(hs.1 hh).2.2]; exact (hs.1 hh).1
              · intro hh; exact hs.2 hh
              · rintro ⟨h1, h2⟩
                obtain ⟨d, hd⟩ := getDtype_some_of_int64 h1 h2
                have hrow : getDtypeRow (minEdge c rest) mx' = d := by simp [getDtypeRow, hd]
                rw [hrow, no_overflow_from_table hd] at hfit
                exact hfit rfl
        · cases hp

/-! ## non-vacuity: concrete inputs satisfying the hypotheses of the theorems above -/

section Examples

private def I (w : Int) : Option Cell := some ⟨.int, w⟩
private def B (w : Int) : Option Cell := some ⟨.bool, w⟩
private def F (w : Int) : Option Cell := some ⟨.float, w⟩

/-- complete 2×3 `int` table; optimum 1 + 2 = 3 at rows [0,1] ↦ cols [1,0] -/
def exComplete : Input := ⟨2, 3, 1, cellOfRows [[I 3, I 1, I 2], [I 2, I 4, I 6]]⟩
def exCompleteSolve : Dense → Ans := fun _ => ⟨[0, 1], [1, 0]⟩

theorem exComplete_prepare :
    prepare exComplete = .ok (some ⟨false, 0, .int, "uint8", filledW exComplete 0⟩) := by rfl

/-- the hypothesis of `total_is_minimum` (hence of all `SolverValidOn` theorems) is satisfiable -/
theorem exComplete_contract : SolverMeetsContractOn exCompleteSolve exComplete := by
  intro p hp
  rw [exComplete_prepare] at hp
  simp only [Except.ok.injEq, Option.some.injEq] at hp
  subst hp
  exact validate_sound (by decide)

example : SolverValidOn exCompleteSolve exComplete := exComplete_contract.valid
example : hasNull exComplete = false := by decide
example : BoolOK exComplete := by
  intro i j c h hb
  obtain ⟨r, hr, hc⟩ := cellOfRows_mem h
  revert hb
  simp only [List.mem_cons, List.not_mem_nil, or_false] at hr
  rcases hr with rfl | rfl <;> simp [I] at hc <;> rcases hc with h | h | h <;> subst h <;> simp
example : minWeightBipartiteMatching exCompleteSolve exComplete = .ok [⟨0, 1, .int, 1⟩, ⟨1, 0, .int, 2⟩] := by rfl

/-- sparse 2×2 `int` table [[5, None], [1, 2]]: sentinel = max(6, 2) + 1 = 7, shown [[5,7],[1,2]] -/
def exSparse : Input := ⟨2, 2, 1, cellOfRows [[I 5, none], [I 1, I 2]]⟩
def exSparseSolve : Dense → Ans := fun _ => ⟨[0, 1], [0, 1]⟩

theorem exSparse_prepare :
    prepare exSparse = .ok (some ⟨true, 7, .int, "uint8", filledW exSparse 7⟩) := by rfl

theorem exSparse_contract : SolverMeetsContractOn exSparseSolve exSparse := by
  intro p hp
  rw [exSparse_prepare] at hp
  simp only [Except.ok.injEq, Option.some.injEq] at hp
  subst hp
  exact validate_sound (by decide)

/-- hypotheses of `null_value_dominates` / `assert_never_fires` / `filter_removes_exactly_missing` -/
example : NonNeg exSparse := by
  intro i j c h
  obtain ⟨r, hr, hc⟩ := cellOfRows_mem h
  simp only [List.mem_cons, List.not_mem_nil, or_false] at hr
  rcases hr with rfl | rfl <;> simp [I] at hc
  · subst hc; decide
  · rcases hc with h | h <;> subst h <;> decide
example : 1 ≤ exSparse.unit := by decide
example : nullValue exSparse = some 7 := by decide
example : hasNull exSparse = true := by decide
example : minWeightBipartiteMatching exSparseSolve exSparse = .ok [⟨0, 0, .int, 5⟩, ⟨1, 1, .int, 2⟩] := by rfl

/-- a solver answer that uses the missing pair (0,1) is filtered: only the existing pair remains -/
example : minWeightBipartiteMatching (fun _ => ⟨[0, 1], [1, 0]⟩) exSparse = .ok [⟨1, 0, .int, 1⟩] := by rfl

/-- complete `bool` table [[T, F], [F, T]] (hypothesis `BoolOK` with bool cells present) -/
def exBool : Input := ⟨2, 2, 1, cellOfRows [[B 1, B 0], [B 0, B 1]]⟩
example : BoolOK exBool := by
  intro i j c h _
  obtain ⟨r, hr, hc⟩ := cellOfRows_mem h
  simp only [List.mem_cons, List.not_mem_nil, or_false] at hr
  rcases hr with rfl | rfl <;> simp [B] at hc <;> rcases hc with h | h <;> subst h <;> decide
example : minWeightBipartiteMatching (fun _ => ⟨[0, 1], [1, 0]⟩) exBool = .ok [⟨0, 1, .bool, 0⟩, ⟨1, 0, .bool, 0⟩] := by rfl

/-- `float` table [[0.5, None], [0.25, 0.75]] with unit 4 (weights 2/4, 1/4, 3/4): sentinel = 3 + 4 -/
def exFloat : Input := ⟨2, 2, 4, cellOfRows [[F 2, none], [F 1, F 3]]⟩
example : nullValue exFloat = some 7 := by decide
example : minWeightBipartiteMatching (fun _ => ⟨[0, 1], [0, 1]⟩) exFloat = .ok [⟨0, 0, .float, 2⟩, ⟨1, 1, .float, 3⟩] := by rfl

/-- error branches of the model are reachable -/
example : prepare ⟨1, 2, 1, cellOfRows [[I 1, B 1]]⟩ = .error .valueError := by rfl
example : prepare ⟨2, 2, 1, cellOfRows [[I (-1), none], [I 3, I 0]]⟩ = .error .assertionError := by rfl
example : prepare ⟨1, 1, 1, cellOfRows [[I 18446744073709551616]]⟩ = .error .overflowError := by rfl
example : (prepare ⟨1, 1, 1, cellOfRows [[none]]⟩).toOption = some none := by rfl

/-- documented-but-dead check: a sparse `bool` table is NOT rejected; the sentinel (2) is shown as `True` (1) -/
example : ∃ p, prepare ⟨1, 2, 1, cellOfRows [[none, B 1]]⟩ = .ok (some p) ∧ p.null = 2 ∧ p.shown 0 0 = 1 ∧ p.shown 0 1 = 1 :=
  ⟨_, rfl, rfl, rfl, rfl⟩

/-! ### totality: the admitted domain is inhabited, and every raising branch is taken outside it -/

/-- all hypotheses of `minWeight_ok_on_domain` on the sparse `int` table [[5, None], [1, 2]] -/
theorem exSparse_domain : NonNeg exSparse ∧ 1 ≤ exSparse.unit ∧ SingleType exSparse ∧
    (∀ c ∈ present exSparse, c.ty = .int → Below exSparse (2 ^ 63)) := by
  have key : ∀ r ∈ [[I 5, none], [I 1, I 2]], ∀ oc ∈ r,
      (oc.all fun c => decide (0 ≤ c.w) && decide (c.w < 2 ^ 63)) = true := by decide
  have hw : ∀ i j c, exSparse.cell i j = some c → 0 ≤ c.w ∧ c.w < 2 ^ 63 := by
    intro i j c h
    obtain ⟨r, hr, hc⟩ := cellOfRows_mem h
    simpa using key r hr _ hc
  refine ⟨fun i j c h => (hw i j c h).1, by decide, by unfold SingleType; decide, fun _ _ _ => ⟨?_, ?_⟩⟩
  · intro i j c _ _ h; exact (hw i j c h).2
  · intro _ j hj
    have : j = 0 ∨ j = 1 := by have : j < 2 := hj; omega
    rcases this with rfl | rfl <;> decide

/-- `minWeight_ok_on_domain` applied: it returns for EVERY solver answer, adversarial ones included -/
example (solve : Dense → Ans) : ∃ res, minWeightBipartiteMatching solve exSparse = .ok res :=
  minWeight_ok_on_domain solve exSparse_domain.1 exSparse_domain.2.1 exSparse_domain.2.2.1 exSparse_domain.2.2.2

/-- the largest admitted `int` weights: `[[2^63 - 2, None]]` (sentinel 2^63 - 1) still returns … -/
example : (prepare ⟨1, 2, 1, cellOfRows [[I 9223372036854775806, none]]⟩).toOption.isSome = true := by rfl
/-- … the audit's boundary tables do not: `[[-1, 2^63]]` and `[[2^64 - 1, None]]` (sentinel 2^64) raise OverflowError,
    as the real code does (`error_domain`, third branch) -/
example : prepare ⟨1, 2, 1, cellOfRows [[I (-1), I 9223372036854775808]]⟩ = .error .overflowError := by rfl
example : prepare ⟨1, 2, 1, cellOfRows [[I 18446744073709551615, none]]⟩ = .error .overflowError := by rfl
/-- between 2^63 and 2^64 non-negative tables are served by the uint64 row (returns; outside the ADMITTED domain only
    because the bound is stated as 2^63) -/
example : (prepare ⟨1, 2, 1, cellOfRows [[I 9223372036854775808, I 3]]⟩).toOption.isSome = true := by rfl
/-- MODEL ≠ CODE outside the domain: the float table `[[2.0**53, None]]` (unit 1) returns in the model (exact
    arithmetic: sentinel 2^53 + 1) while the real code raises AssertionError (2^53 + 1 == 2^53 in float64).  Float
    tables are claimed only while weights and column sums stay below 2^53. -/
example : (prepare ⟨1, 2, 1, cellOfRows [[F 9007199254740992, none]]⟩).toOption.isSome = true := by rfl
/-- `error_domain` is not vacuous: each of its three branches is taken (ValueError / AssertionError / OverflowError) -/
example : minWeightBipartiteMatching exSparseSolve ⟨1, 2, 1, cellOfRows [[I 1, B 1]]⟩ = .error .valueError := by rfl
example : minWeightBipartiteMatching exSparseSolve ⟨2, 2, 1, cellOfRows [[I (-1), none], [I 3, I 0]]⟩
    = .error .assertionError := by rfl
example : minWeightBipartiteMatching exSparseSolve ⟨1, 1, 1, cellOfRows [[I 18446744073709551616]]⟩
    = .error .overflowError := by rfl

-- [audit] non-vacuity: the STRUCTURAL half of the solver contract (`Ans.Valid`) is satisfiable for every shape
-- (identity assignment on the first `min n m` indices).  That a MINIMISER exists for every matrix (i.e. that
-- `Contract d a` is satisfiable for every `d`) is not proved anywhere; it is only exhibited on the concrete inputs
-- `exComplete`, `exSparse` above and `exBool` below.
example (n m : Nat) : (⟨List.range (min n m), List.range (min n m)⟩ : Ans).Valid n m := by
  refine ⟨by simp, by simp, List.nodup_range, List.nodup_range, ?_, ?_⟩ <;> intro x hx <;> simp at hx <;> omega

-- [audit] non-vacuity: ALL hypotheses of `total_is_minimum` / `pairs_min_n_m` simultaneously on a complete `bool`
-- table (the only type for which the matrix shown differs syntactically from the table), and the theorems applied.
def exBoolSolve : Dense → Ans := fun _ => ⟨[0, 1], [1, 0]⟩

theorem exBool_contract : SolverMeetsContractOn exBoolSolve exBool := by
  intro p hp
  have hprep : prepare exBool = .ok (some ⟨false, 0, .bool, "bool",
      fun i j => if filledW exBool 0 i j ≠ 0 then (exBool.unit : Int) else 0⟩) := rfl
  rw [hprep] at hp
  simp only [Except.ok.injEq, Option.some.injEq] at hp
  subst hp
  exact validate_sound (by decide)

theorem exBool_boolOK : BoolOK exBool := by
  intro i j c h _
  obtain ⟨r, hr, hc⟩ := cellOfRows_mem h
  simp only [List.mem_cons, List.not_mem_nil, or_false] at hr
  rcases hr with rfl | rfl <;> simp [B] at hc <;> rcases hc with h | h <;> subst h <;> decide

-- [audit] `total_is_minimum` applied: reported total (0) ≤ total of the competing diagonal assignment (2)
example :
    (([⟨0, 1, .bool, 0⟩, ⟨1, 0, .bool, 0⟩] : List Pair).map (·.w)).sum
      ≤ total (fun i j => ((exBool.cell i j).map (·.w)).getD 0) ⟨[0, 1], [0, 1]⟩ :=
  total_is_minimum exBool_contract exBool_boolOK (by decide) (res := [⟨0, 1, .bool, 0⟩, ⟨1, 0, .bool, 0⟩]) rfl
    (fun i j => ((exBool.cell i j).map (·.w)).getD 0) (fun i j c h => by simp [h]) ⟨[0, 1], [0, 1]⟩ (by decide)
example : total (fun i j => ((exBool.cell i j).map (·.w)).getD 0) ⟨[0, 1], [0, 1]⟩ = 2 := by decide

-- [audit] `pairs_min_n_m` applied
example : ([⟨0, 1, .bool, 0⟩, ⟨1, 0, .bool, 0⟩] : List Pair).length = min exBool.n exBool.m :=
  pairs_min_n_m exBool_contract.valid (by decide) (solve := exBoolSolve) rfl

end Examples

end GtModel.C15

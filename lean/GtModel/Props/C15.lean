/-
  C15 — "Minimum-weight assignment is valid and optimal".

  All theorems are about `GtModel.Assign.minWeightBipartiteMatching solve inp`, the exact model of
  `graphtage.matching.min_weight_bipartite_matching` with the external solver (`scipy.optimize.linear_sum_assignment`)
  as the parameter `solve`.  They hold for EVERY solver whose answer on the matrix it is shown satisfies the
  contract (`SolverValidOn` = structural part, `SolverMeetsContractOn` = structural part + minimality), for tables of
  any size.  Weights are `Int`s: `int` weights as they are, `bool` as 0/1, `float` weights (dyadic rationals) scaled by
  the common power-of-two denominator `inp.unit` — comparisons and sums are invariant under that scaling and the only
  constant in the code, the `+ 1` of the sentinel, is scaled along (`+ inp.unit`).
-/
import GtModel.Proofs.Assign

namespace GtModel.C15
open GtModel.Assign GtModel.Gen

/-! ## dtype table (regenerated from /repo on every run) -/

/-- `get_dtype` only returns a dtype of the table whose TRUE numpy range contains `[lo, hi]`, so
    `np.array(weights, dtype=get_dtype(min_edge, max_edge))` neither wraps nor raises. -/
theorem get_dtype_sound {lo hi : Int} {d : DtypeRow} (h : getDtype lo hi = some d) :
    d.trueLo ≤ lo ∧ hi ≤ d.trueHi := getDtype_sound h

/-- The fallback `np.dtype(int)` is int64 with the usual range. -/
theorem fallback_is_int64 :
    fallbackDtype.name = "int64" ∧ fallbackDtype.trueLo = -(2 ^ 63) ∧ fallbackDtype.trueHi = 2 ^ 63 - 1 := by decide

/-- The fallback is reached only for ranges that do NOT fit int64: whenever `get_dtype` falls through the table,
    the numpy conversion raises `OverflowError` (the model's `fitsDtype` check fails). -/
theorem get_dtype_fallback {lo hi : Int} (h : getDtype lo hi = none) :
    getDtypeRow lo hi = fallbackDtype ∧ fitsDtype fallbackDtype lo hi = false := by
  refine ⟨by simp [getDtypeRow, h], ?_⟩
  unfold getDtype at h
  rw [List.find?_eq_none] at h
  have := h ⟨-9223372036854775808, 9223372036854775808, "int64", -9223372036854775808, 9223372036854775807⟩
    (by decide)
  simp only [Bool.and_eq_true, decide_eq_true_eq, not_and] at this
  unfold fitsDtype fallbackDtype
  simp only [Bool.and_eq_false_iff, decide_eq_false_iff_not]
  omega

/-- A dtype chosen from the table always fits (no `OverflowError` from a table row). -/
theorem no_overflow_from_table {lo hi : Int} {d : DtypeRow} (h : getDtype lo hi = some d) :
    fitsDtype d lo hi = true := by
  have := getDtype_sound h
  simp [fitsDtype, this.1, this.2]

example : getDtype 0 255 = some ⟨0, 256, "uint8", 0, 255⟩ := by decide
example : getDtype 0 256 = some ⟨0, 65536, "uint16", 0, 65535⟩ := by decide
example : getDtype (-1) 9223372036854775808 = none := by decide

/-! ## the solver contract, restricted to the matrix the function actually shows -/

/-- Structural part: distinct in-range rows, distinct in-range columns, exactly `min n m` pairs. -/
def SolverValidOn (solve : Dense → Ans) (inp : Input) : Prop :=
  ∀ p, prepare inp = .ok (some p) → (solve (p.dense inp)).Valid inp.n inp.m

/-- Full contract: additionally of minimum total on the matrix shown. -/
def SolverMeetsContractOn (solve : Dense → Ans) (inp : Input) : Prop :=
  ∀ p, prepare inp = .ok (some p) → Contract (p.dense inp) (solve (p.dense inp))

theorem SolverMeetsContractOn.valid {solve : Dense → Ans} {inp : Input} (h : SolverMeetsContractOn solve inp) :
    SolverValidOn solve inp := fun p hp => (h p hp).1

/-- The executable check the driver runs on every recorded scipy answer implies the contract
    (the brute force enumerates every candidate assignment). -/
theorem validate_sound {d : Dense} {a : Ans} (h : validateB d a = true) : Contract d a := by
  unfold validateB at h
  rw [Bool.and_eq_true, decide_eq_true_eq] at h
  exact ⟨h.1, isOptimalB_sound h.2⟩

/-- What the driver does with a recorded scipy answer `a`: if the executable check passes on the matrix the model
    shows, the constant solver `fun _ => a` meets the contract on this input, so every theorem below applies to
    the result the driver computes from it. -/
theorem recorded_answer_meets_contract {inp : Input} {p : Prep} {a : Ans}
    (hp : prepare inp = .ok (some p)) (h : validateB (p.dense inp) a = true) :
    SolverMeetsContractOn (fun _ => a) inp := by
  intro p' hp'
  rw [hp] at hp'
  simp only [Except.ok.injEq, Option.some.injEq] at hp'
  subst hp'
  exact validate_sound h

/-- Results are either empty (early return) or `finish` of the solver's answer. -/
theorem result_cases {solve : Dense → Ans} {inp : Input} {res : List Pair}
    (h : minWeightBipartiteMatching solve inp = .ok res) :
    (prepare inp = .ok none ∧ res = []) ∨
    ∃ p, prepare inp = .ok (some p) ∧ res = finish inp p (solve (p.dense inp)) := by
  unfold minWeightBipartiteMatching at h
  split at h
  · cases h
  · left; simp only [Except.ok.injEq] at h; exact ⟨by assumption, h.symm⟩
  · right; rename_i p hp; simp only [Except.ok.injEq] at h; exact ⟨p, hp, h.symm⟩

/-! ## validity, for every table (sparse or complete, any type) -/

/-- The returned pairing is one-to-one: distinct from-indices and distinct to-indices. -/
theorem result_is_injection {solve : Dense → Ans} {inp : Input} {res : List Pair}
    (hs : SolverValidOn solve inp) (h : minWeightBipartiteMatching solve inp = .ok res) :
    (res.map (·.f)).Nodup ∧ (res.map (·.t)).Nodup := by
  rcases result_cases h with ⟨_, rfl⟩ | ⟨p, hp, rfl⟩
  · simp
  · obtain ⟨_, _, hrn, hcn, _, _⟩ := hs p hp
    exact ⟨(finish_f_sublist inp p _).nodup hrn, (finish_t_sublist inp p _).nodup hcn⟩

/-- Every reported pair lies inside the table and had a non-`None` weight. -/
theorem only_existing_pairs {solve : Dense → Ans} {inp : Input} {res : List Pair}
    (hs : SolverValidOn solve inp) (h : minWeightBipartiteMatching solve inp = .ok res) :
    ∀ q ∈ res, q.f < inp.n ∧ q.t < inp.m ∧ (inp.cell q.f q.t).isSome = true := by
  intro q hq
  rcases result_cases h with ⟨_, rfl⟩ | ⟨p, hp, rfl⟩
  · cases hq
  · obtain ⟨_, _, _, _, hrl, hcl⟩ := hs p hp
    obtain ⟨hz, hc, _⟩ := mem_finish hq
    have := List.of_mem_zip hz
    exact ⟨hrl _ this.1, hcl _ this.2, by simp [hc]⟩

/-- The reported weight (and its Python type) is the table's weight for that pair — for ANY solver answer. -/
theorem reports_true_weights {solve : Dense → Ans} {inp : Input} {res : List Pair}
    (h : minWeightBipartiteMatching solve inp = .ok res) :
    ∀ q ∈ res, inp.cell q.f q.t = some ⟨q.ty, q.w⟩ := by
  intro q hq
  rcases result_cases h with ⟨_, rfl⟩ | ⟨p, hp, rfl⟩
  · cases hq
  · exact (mem_finish hq).2.1

/-! ## complete tables: maximum cardinality and minimum total -/

/-- `bool` weights are 0 or 1 (scaled: 0 or `unit`) — what `np.array(..., dtype=bool)` preserves. -/
def BoolOK (inp : Input) : Prop := ∀ i j c, inp.cell i j = some c → c.ty = .bool → c.w = 0 ∨ c.w = inp.unit

/-- A complete table without any existing pair is an empty table. -/
theorem complete_none_empty {inp : Input} (hcomplete : hasNull inp = false) (hp : prepare inp = .ok none) :
    min inp.n inp.m = 0 := by
  unfold prepare at hp
  split at hp
  · rename_i hpres
    by_cases hz : 0 < inp.n ∧ 0 < inp.m
    · obtain ⟨c, hc⟩ := cell_some_of_complete hcomplete hz.1 hz.2
      have : c ∈ present inp := mem_present.2 ⟨0, 0, hz.1, hz.2, hc⟩
      rw [hpres] at this
      cases this
    · omega
  · split at hp
    · cases hp
    · split at hp
      · cases hp
      · split at hp <;> cases hp

/-- With no missing pair the function pairs as many items as possible: exactly `min n m`. -/
theorem pairs_min_n_m {solve : Dense → Ans} {inp : Input} {res : List Pair}
    (hs : SolverValidOn solve inp) (hcomplete : hasNull inp = false)
    (h : minWeightBipartiteMatching solve inp = .ok res) :
    res.length = min inp.n inp.m := by
  rcases result_cases h with ⟨hp, rfl⟩ | ⟨p, hp, rfl⟩
  · rw [complete_none_empty hcomplete hp]; rfl
  · obtain ⟨hr, hc, _, _, hrl, hcl⟩ := hs p hp
    have hpn := (prepare_some hp).1
    rw [finish_eq]
    have hall : ∀ ft ∈ (solve (p.dense inp)).rows.zip (solve (p.dense inp)).cols,
        ∃ c, inp.cell ft.1 ft.2 = some c ∧ (p.hasNull = false ∨ c.w < p.null) ∧ filledW inp 0 ft.1 ft.2 = c.w := by
      intro ft hft
      have hm := List.of_mem_zip (a := ft.1) (b := ft.2) hft
      obtain ⟨c, hc⟩ := cell_some_of_complete hcomplete (hrl _ hm.1) (hcl _ hm.2)
      exact ⟨c, hc, Or.inl (by rw [hpn, hcomplete]), by simp [filledW, hc]⟩
    rw [(keep_all_sum (filledW inp 0) _ hall).1, List.length_zip, hr, hc]
    simp

/-- On a complete table the matrix shown to the solver is the table itself. -/
theorem shown_eq_table {inp : Input} {p : Prep} (hb : BoolOK inp) (hcomplete : hasNull inp = false)
    (hp : prepare inp = .ok (some p)) {i j : Nat} (hi : i < inp.n) (hj : j < inp.m) :
    ∃ c, inp.cell i j = some c ∧ p.shown i j = c.w := by
  obtain ⟨_, _, hnb, hbool, c0, rest, hpres, hc0, hrest⟩ := prepare_some hp
  obtain ⟨c, hc⟩ := cell_some_of_complete hcomplete hi hj
  refine ⟨c, hc, ?_⟩
  have hcty : c.ty = p.ty := by
    have hm : c ∈ present inp := mem_present.2 ⟨i, j, hi, hj, hc⟩
    rw [hpres] at hm
    rcases List.mem_cons.1 hm with rfl | hm
    · exact hc0
    · exact hrest c hm
  by_cases hty : p.ty = .bool
  · rw [hbool hty]
    simp only [filledW, hc]
    rcases hb i j c hc (by rw [hcty, hty]) with h0 | h1
    · simp [h0]
    · by_cases hu : inp.unit = 0
      · simp [h1, hu]
      · simp [h1, hu]
  · rw [hnb hty]
    simp [filledW, hc]

theorem total_congr {e1 e2 : Nat → Nat → Int} {b : Ans}
    (h : ∀ ft ∈ b.rows.zip b.cols, e1 ft.1 ft.2 = e2 ft.1 ft.2) : total e1 b = total e2 b := by
  unfold total
  rw [List.map_congr_left h]

/-- With no missing pair the total reported weight is the smallest achievable: it does not exceed the total of
    ANY one-to-one assignment `b` of `min n m` pairs, measured with the table's own weights `w`.
    (`w` is any function that agrees with the table on existing pairs — no default value is invented.) -/
theorem total_is_minimum {solve : Dense → Ans} {inp : Input} {res : List Pair}
    (hs : SolverMeetsContractOn solve inp) (hb : BoolOK inp) (hcomplete : hasNull inp = false)
    (h : minWeightBipartiteMatching solve inp = .ok res)
    (w : Nat → Nat → Int) (hw : ∀ i j c, inp.cell i j = some c → w i j = c.w)
    (b : Ans) (hbv : b.Valid inp.n inp.m) :
    (res.map (·.w)).sum ≤ total w b := by
  rcases result_cases h with ⟨hp, rfl⟩ | ⟨p, hp, rfl⟩
  · have h0 := complete_none_empty hcomplete hp
    obtain ⟨hr, _, _, _, _, _⟩ := hbv
    rw [h0] at hr
    have : b.rows = [] := List.eq_nil_of_length_eq_zero hr
    simp [total, this]
  · obtain ⟨⟨hr, hc, _, _, hrl, hcl⟩, hmin⟩ := hs p hp
    have hpn := (prepare_some hp).1
    have hall : ∀ ft ∈ (solve (p.dense inp)).rows.zip (solve (p.dense inp)).cols,
        ∃ c, inp.cell ft.1 ft.2 = some c ∧ (p.hasNull = false ∨ c.w < p.null) ∧ p.shown ft.1 ft.2 = c.w := by
      intro ft hft
      have hm := List.of_mem_zip (a := ft.1) (b := ft.2) hft
      obtain ⟨c, hc, hsh⟩ := shown_eq_table hb hcomplete hp (hrl _ hm.1) (hcl _ hm.2)
      exact ⟨c, hc, Or.inl (by rw [hpn, hcomplete]), hsh⟩
    rw [finish_eq, (keep_all_sum p.shown _ hall).2]
    have h1 := hmin b hbv
    have h2 : total (p.dense inp).ent b = total w b := by
      apply total_congr
      intro ft hft
      have hm := List.of_mem_zip (a := ft.1) (b := ft.2) hft
      obtain ⟨c, hc, hsh⟩ := shown_eq_table hb hcomplete hp (hbv.2.2.2.2.1 _ hm.1) (hbv.2.2.2.2.2 _ hm.2)
      show p.shown ft.1 ft.2 = w ft.1 ft.2
      rw [hsh, hw _ _ c hc]
    rw [← h2]
    exact h1

/-! ## sparse tables: the sentinel -/

/-- For non-negative weights the sentinel `max column sum + 1` exceeds every real weight, every column sum, and the
    running `max_edge` — the condition of `assert null_edge_value > max_edge`. -/
theorem null_value_dominates {inp : Input} (hn : NonNeg inp) (hu : 1 ≤ inp.unit) {nv : Int}
    (h : nullValue inp = some nv) :
    (∀ i j c, i < inp.n → j < inp.m → inp.cell i j = some c → c.w < nv) ∧
    (∀ j, j < inp.m → colSum inp j < nv) ∧
    (∀ c rest, present inp = c :: rest → maxEdge c rest < nv) := by
  refine ⟨fun i j c hi hj hc => weight_lt_null hn hu h hi hj hc, fun j hj => colSum_lt_null hu h hj, ?_⟩
  intro c rest hpres
  have hmem : ∀ e ∈ present inp, e.w < nv := by
    intro e he
    obtain ⟨i, j, hi, hj, hc⟩ := mem_present.1 he
    exact weight_lt_null hn hu h hi hj hc
  rw [hpres] at hmem
  exact maxEdge_lt (hmem c List.mem_cons_self) (fun e he => hmem e (List.mem_cons_of_mem _ he))

/-- ... so on the domain graphtage uses (costs ≥ 0) the `assert` never fires. -/
theorem assert_never_fires {inp : Input} (hn : NonNeg inp) (hu : 1 ≤ inp.unit) :
    prepare inp ≠ .error .assertionError := by
  intro hp
  unfold prepare at hp
  split at hp
  · cases hp
  · rename_i c rest hpres
    split at hp
    · cases hp
    · split at hp
      · rename_i e hns
        simp only [Except.error.injEq] at hp
        subst hp
        unfold nullStep at hns
        split at hns
        · split at hns
          · cases hns
          · rename_i nv hnv
            split at hns
            · cases hns
            · rename_i hle
              exact hle ((null_value_dominates hn hu hnv).2.2 c rest hpres)
        · cases hns
      · split at hp
        · rename_i e hcv
          simp only [Except.error.injEq] at hp
          subst hp
          unfold convert at hcv
          split at hcv
          · cases hcv
          · cases hcv
          · dsimp only at hcv; split at hcv <;> cases hcv
        · cases hp

/-- ... and the final filter `weights[f][t] < null_edge_value` removes exactly the non-existing pairs of the solver's
    answer: the result is the answer restricted to existing pairs, each with its true weight. -/
theorem filter_removes_exactly_missing {solve : Dense → Ans} {inp : Input} {p : Prep} {res : List Pair}
    (hn : NonNeg inp) (hu : 1 ≤ inp.unit) (hs : SolverValidOn solve inp)
    (hp : prepare inp = .ok (some p)) (h : minWeightBipartiteMatching solve inp = .ok res) :
    res = ((solve (p.dense inp)).rows.zip (solve (p.dense inp)).cols).filterMap fun ft =>
      (inp.cell ft.1 ft.2).map fun c => (⟨ft.1, ft.2, c.ty, c.w⟩ : Pair) := by
  rcases result_cases h with ⟨hp', _⟩ | ⟨p', hp', rfl⟩
  · rw [hp] at hp'; cases hp'
  · rw [hp] at hp'
    simp only [Except.ok.injEq, Option.some.injEq] at hp'
    subst hp'
    obtain ⟨_, _, _, _, hrl, hcl⟩ := hs p hp
    obtain ⟨hpn, hnull, _⟩ := prepare_some hp
    rw [finish_eq]
    apply filterMap_congr'
    intro ft hft
    have hm := List.of_mem_zip (a := ft.1) (b := ft.2) hft
    unfold keep
    cases hc : inp.cell ft.1 ft.2 with
    | none => rfl
    | some c =>
      simp only [Option.map_some]
      by_cases hh : p.hasNull = true
      · have := weight_lt_null hn hu (hnull hh) (hrl _ hm.1) (hcl _ hm.2) hc
        simp [this]
      · simp [hh]

/-! ## non-vacuity: concrete inputs satisfying the hypotheses of the theorems above -/

section Examples

private def I (w : Int) : Option Cell := some ⟨.int, w⟩
private def B (w : Int) : Option Cell := some ⟨.bool, w⟩
private def F (w : Int) : Option Cell := some ⟨.float, w⟩

/-- complete 2×3 `int` table; optimum 1 + 2 = 3 at rows [0,1] ↦ cols [1,0] -/
def exComplete : Input := ⟨2, 3, 1, cellOfRows [[I 3, I 1, I 2], [I 2, I 4, I 6]]⟩
def exCompleteSolve : Dense → Ans := fun _ => ⟨[0, 1], [1, 0]⟩

theorem exComplete_prepare :
    prepare exComplete = .ok (some ⟨false, 0, .int, "uint8", filledW exComplete 0⟩) := by rfl

/-- the hypothesis of `total_is_minimum` (hence of all `SolverValidOn` theorems) is satisfiable -/
theorem exComplete_contract : SolverMeetsContractOn exCompleteSolve exComplete := by
  intro p hp
  rw [exComplete_prepare] at hp
  simp only [Except.ok.injEq, Option.some.injEq] at hp
  subst hp
  exact validate_sound (by decide)

example : SolverValidOn exCompleteSolve exComplete := exComplete_contract.valid
example : hasNull exComplete = false := by decide
example : BoolOK exComplete := by
  intro i j c h hb
  obtain ⟨r, hr, hc⟩ := cellOfRows_mem h
  revert hb
  simp only [List.mem_cons, List.not_mem_nil, or_false] at hr
  rcases hr with rfl | rfl <;> simp [I] at hc <;> rcases hc with h | h | h <;> subst h <;> simp
example : minWeightBipartiteMatching exCompleteSolve exComplete = .ok [⟨0, 1, .int, 1⟩, ⟨1, 0, .int, 2⟩] := by rfl

/-- sparse 2×2 `int` table [[5, None], [1, 2]]: sentinel = max(6, 2) + 1 = 7, shown [[5,7],[1,2]] -/
def exSparse : Input := ⟨2, 2, 1, cellOfRows [[I 5, none], [I 1, I 2]]⟩
def exSparseSolve : Dense → Ans := fun _ => ⟨[0, 1], [0, 1]⟩

theorem exSparse_prepare :
    prepare exSparse = .ok (some ⟨true, 7, .int, "uint8", filledW exSparse 7⟩) := by rfl

theorem exSparse_contract : SolverMeetsContractOn exSparseSolve exSparse := by
  intro p hp
  rw [exSparse_prepare] at hp
  simp only [Except.ok.injEq, Option.some.injEq] at hp
  subst hp
  exact validate_sound (by decide)

/-- hypotheses of `null_value_dominates` / `assert_never_fires` / `filter_removes_exactly_missing` -/
example : NonNeg exSparse := by
  intro i j c h
  obtain ⟨r, hr, hc⟩ := cellOfRows_mem h
  simp only [List.mem_cons, List.not_mem_nil, or_false] at hr
  rcases hr with rfl | rfl <;> simp [I] at hc
  · subst hc; decide
  · rcases hc with h | h <;> subst h <;> decide
example : 1 ≤ exSparse.unit := by decide
example : nullValue exSparse = some 7 := by decide
example : hasNull exSparse = true := by decide
example : minWeightBipartiteMatching exSparseSolve exSparse = .ok [⟨0, 0, .int, 5⟩, ⟨1, 1, .int, 2⟩] := by rfl

/-- a solver answer that uses the missing pair (0,1) is filtered: only the existing pair remains -/
example : minWeightBipartiteMatching (fun _ => ⟨[0, 1], [1, 0]⟩) exSparse = .ok [⟨1, 0, .int, 1⟩] := by rfl

/-- complete `bool` table [[T, F], [F, T]] (hypothesis `BoolOK` with bool cells present) -/
def exBool : Input := ⟨2, 2, 1, cellOfRows [[B 1, B 0], [B 0, B 1]]⟩
example : BoolOK exBool := by
  intro i j c h _
  obtain ⟨r, hr, hc⟩ := cellOfRows_mem h
  simp only [List.mem_cons, List.not_mem_nil, or_false] at hr
  rcases hr with rfl | rfl <;> simp [B] at hc <;> rcases hc with h | h <;> subst h <;> decide
example : minWeightBipartiteMatching (fun _ => ⟨[0, 1], [1, 0]⟩) exBool = .ok [⟨0, 1, .bool, 0⟩, ⟨1, 0, .bool, 0⟩] := by rfl

/-- `float` table [[0.5, None], [0.25, 0.75]] with unit 4 (weights 2/4, 1/4, 3/4): sentinel = 3 + 4 -/
def exFloat : Input := ⟨2, 2, 4, cellOfRows [[F 2, none], [F 1, F 3]]⟩
example : nullValue exFloat = some 7 := by decide
example : minWeightBipartiteMatching (fun _ => ⟨[0, 1], [0, 1]⟩) exFloat = .ok [⟨0, 0, .float, 2⟩, ⟨1, 1, .float, 3⟩] := by rfl

/-- error branches of the model are reachable -/
example : prepare ⟨1, 2, 1, cellOfRows [[I 1, B 1]]⟩ = .error .valueError := by rfl
example : prepare ⟨2, 2, 1, cellOfRows [[I (-1), none], [I 3, I 0]]⟩ = .error .assertionError := by rfl
example : prepare ⟨1, 1, 1, cellOfRows [[I 18446744073709551616]]⟩ = .error .overflowError := by rfl
example : (prepare ⟨1, 1, 1, cellOfRows [[none]]⟩).toOption = some none := by rfl

/-- documented-but-dead check: a sparse `bool` table is NOT rejected; the sentinel (2) is shown as `True` (1) -/
example : ∃ p, prepare ⟨1, 2, 1, cellOfRows [[none, B 1]]⟩ = .ok (some p) ∧ p.null = 2 ∧ p.shown 0 0 = 1 ∧ p.shown 0 1 = 1 :=
  ⟨_, rfl, rfl, rfl, rfl⟩

-- [audit] non-vacuity: the STRUCTURAL half of the solver contract (`Ans.Valid`) is satisfiable for every shape
-- (identity assignment on the first `min n m` indices).  That a MINIMISER exists for every matrix (i.e. that
-- `Contract d a` is satisfiable for every `d`) is not proved anywhere; it is only exhibited on the concrete inputs
-- `exComplete`, `exSparse` above and `exBool` below.
example (n m : Nat) : (⟨List.range (min n m), List.range (min n m)⟩ : Ans).Valid n m := by
  refine ⟨by simp, by simp, List.nodup_range, List.nodup_range, ?_, ?_⟩ <;> intro x hx <;> simp at hx <;> omega

-- [audit] non-vacuity: ALL hypotheses of `total_is_minimum` / `pairs_min_n_m` simultaneously on a complete `bool`
-- table (the only type for which the matrix shown differs syntactically from the table), and the theorems applied.
def exBoolSolve : Dense → Ans := fun _ => ⟨[0, 1], [1, 0]⟩

theorem exBool_contract : SolverMeetsContractOn exBoolSolve exBool := by
  intro p hp
  have hprep : prepare exBool = .ok (some ⟨false, 0, .bool, "bool",
      fun i j => if filledW exBool 0 i j ≠ 0 then (exBool.unit : Int) else 0⟩) := rfl
  rw [hprep] at hp
  simp only [Except.ok.injEq, Option.some.injEq] at hp
  subst hp
  exact validate_sound (by decide)

theorem exBool_boolOK : BoolOK exBool := by
  intro i j c h _
  obtain ⟨r, hr, hc⟩ := cellOfRows_mem h
  simp only [List.mem_cons, List.not_mem_nil, or_false] at hr
  rcases hr with rfl | rfl <;> simp [B] at hc <;> rcases hc with h | h <;> subst h <;> decide

-- [audit] `total_is_minimum` applied: reported total (0) ≤ total of the competing diagonal assignment (2)
example :
    (([⟨0, 1, .bool, 0⟩, ⟨1, 0, .bool, 0⟩] : List Pair).map (·.w)).sum
      ≤ total (fun i j => ((exBool.cell i j).map (·.w)).getD 0) ⟨[0, 1], [0, 1]⟩ :=
  total_is_minimum exBool_contract exBool_boolOK (by decide) (res := [⟨0, 1, .bool, 0⟩, ⟨1, 0, .bool, 0⟩]) rfl
    (fun i j => ((exBool.cell i j).map (·.w)).getD 0) (fun i j c h => by simp [h]) ⟨[0, 1], [0, 1]⟩ (by decide)
example : total (fun i j => ((exBool.cell i j).map (·.w)).getD 0) ⟨[0, 1], [0, 1]⟩ = 2 := by decide

-- [audit] `pairs_min_n_m` applied
example : ([⟨0, 1, .bool, 0⟩, ⟨1, 0, .bool, 0⟩] : List Pair).length = min exBool.n exBool.m :=
  pairs_min_n_m exBool_contract.valid (by decide) (solve := exBoolSolve) rfl

end Examples

end GtModel.C15

/-
  C16 — "The priority queue always yields a minimum", on the L4 model of graphtage.fibonacci / utils.smallest|largest.

  For ALL operation sequences (induction over the op list): the invariant `Inv` holds in every reachable state, no
  operation fails with IndexError / a corrupt structure, the reported size is the number of live items, `peek`
  shows and `pop` removes exactly one item of minimum key (maximum for the `MaxFibonacciHeap` comparator).
-/
import GtModel.Proofs.HeapOps

set_option linter.unusedSimpArgs false
set_option linter.unusedVariables false

namespace GtModel.C16
open GtModel.Heap
variable {K : Type}

/-- the live items of a heap: (item, key) of every node (no node of a reachable heap carries `deleted`) -/
def live (h : Heap K) : List (Nat × K) := (items h.roots).map (fun i => (i.1, i.2.1))

/-- invariant of the driver state: heap invariant, and every identity in the heap was handed out already -/
def InvS (cmp : Cmp K) (s : St K) : Prop := Inv cmp s.h ∧ ∀ i ∈ ids s.h.roots, i < s.next

/-- states reachable from the empty heap by public operations that the model accepts
    (`decrease_key` / `remove` of a node that is not in the heap is outside the documented precondition and rejected) -/
inductive Reach (cmp : Cmp K) : St K → Prop
  | init : Reach cmp St.init
  | step {s s' : St K} {op : Op K} {r : Ret} : Reach cmp s → step cmp s op = (some s', r) → Reach cmp s'

/-- the documented precondition of an operation -/
def OpPre (s : St K) : Op K → Prop
  | .dec i _ => ∃ x ∈ flats s.h.roots, x.id = i
  | .rem i => ∃ x ∈ flats s.h.roots, x.id = i
  | _ => True

theorem inv_init (cmp : Cmp K) : InvS cmp (St.init : St K) :=
  ⟨inv_empty cmp, by simp [St.init, empty, ids]⟩

theorem ids_sub {a b : List (HNode K)} (h : ∀ j ∈ ms b, j ∈ ms a) : ∀ i ∈ ids b, i ∈ ids a := by
  intro i hi
  obtain ⟨j, hj, rfl⟩ := List.mem_map.1 hi
  exact List.mem_map.2 ⟨j, mem_ms.1 (h j (mem_ms.2 hj)), rfl⟩

theorem target_dec (s : St K) (i : Nat) : (∃ x ∈ flats s.h.roots, x.id = i) ∨ (∀ x ∈ flats s.h.roots, x.id ≠ i) := by
  by_cases h : ∃ x ∈ flats s.h.roots, x.id = i
  · exact Or.inl h
  · exact Or.inr (fun x hx he => h ⟨x, hx, he⟩)

/-- every operation, under its documented precondition, preserves the invariant (`inv_step`), and the only way the
    model refuses an operation is a violated precondition (in particular: never `IndexError` from `_consolidate`) -/
theorem inv_step {cmp : Cmp K} (T : Total cmp) (s : St K) (hI : InvS cmp s) (op : Op K) :
    (∀ s' r, step cmp s op = (some s', r) → InvS cmp s') ∧ (OpPre s op → ∃ s' r, step cmp s op = (some s', r)) := by
  obtain ⟨hInv, hlt⟩ := hI
  cases op with
  | push k =>
    have hid : s.next ∉ ids s.h.roots := fun hc => Nat.lt_irrefl _ (hlt _ hc)
    obtain ⟨h', hp, hI', hms⟩ := push_spec T s.h hInv s.next k hid
    simp only [step, hp]
    refine ⟨?_, fun _ => ⟨_, _, rfl⟩⟩
    intro s' r he
    simp only [Prod.mk.injEq, Option.some.injEq] at he
    rw [← he.1]
    refine ⟨hI', ?_⟩
    intro i hi
    obtain ⟨j, hj, rfl⟩ := List.mem_map.1 hi
    have := mem_ms.2 hj
    simp only at this
    rw [hms] at this
    rcases Multiset.mem_add.1 this with hh | hh
    · simp at hh; rw [hh]; simp
    · exact Nat.lt_succ_of_lt (hlt _ (List.mem_map.2 ⟨j, mem_ms.1 hh, rfl⟩))
  | pop =>
    by_cases hne : s.h.roots = []
    · simp only [step, pop_empty s.h hInv hne]
      exact ⟨fun s' r he => by simp only [Prod.mk.injEq, Option.some.injEq] at he; rw [← he.1]; exact ⟨hInv, hlt⟩, fun _ => ⟨_, _, rfl⟩⟩
    · obtain ⟨h', z, hp, hI', hms, _, _⟩ := pop_spec T s.h hInv hne
      simp only [step, hp]
      refine ⟨?_, fun _ => ⟨_, _, rfl⟩⟩
      intro s' r he
      simp only [Prod.mk.injEq, Option.some.injEq] at he
      rw [← he.1]
      exact ⟨hI', fun i hi => hlt i (ids_sub (fun j hj => by rw [hms]; exact Multiset.mem_add.2 (Or.inr hj)) i hi)⟩
  | peek =>
    by_cases hne : s.h.roots = []
    · simp only [step, peek_empty s.h hInv hne]
      exact ⟨fun s' r he => by simp only [Prod.mk.injEq, Option.some.injEq] at he; rw [← he.1]; exact ⟨hInv, hlt⟩, fun _ => ⟨_, _, rfl⟩⟩
    · obtain ⟨z, hz, hp, _, _⟩ := peek_spec T s.h hInv hne
      simp only [step, hp]
      exact ⟨fun s' r he => by simp only [Prod.mk.injEq, Option.some.injEq] at he; rw [← he.1]; exact ⟨hInv, hlt⟩, fun _ => ⟨_, _, rfl⟩⟩
  | dec i k =>
    rcases target_dec s i with ⟨x, hx, hxi⟩ | hno
    · cases hlk : cmp.lt x.key k
      · obtain ⟨h', rest, hp, hI', hmo, hmn⟩ := decreaseKey_spec T s.h hInv i k x hx hxi hlk
        simp only [step, hp]
        refine ⟨?_, fun _ => ⟨_, _, rfl⟩⟩
        intro s' r he
        simp only [Prod.mk.injEq, Option.some.injEq] at he
        rw [← he.1]
        refine ⟨hI', ?_⟩
        intro i' hi'
        obtain ⟨j, hj, rfl⟩ := List.mem_map.1 hi'
        have := mem_ms.2 hj
        simp only at this
        rw [hmn] at this
        rcases Multiset.mem_add.1 this with hh | hh
        · simp at hh; rw [hh]; simp only
          exact hlt _ (hxi ▸ mem_ids_of_mem_flats hx)
        · apply hlt; apply List.mem_map.2
          exact ⟨j, mem_ms.1 (by rw [hmo]; exact Multiset.mem_add.2 (Or.inr hh)), rfl⟩
      · simp only [step, decreaseKey_valueError s.h hInv i k x hx hxi hlk]
        exact ⟨fun s' r he => by simp only [Prod.mk.injEq, Option.some.injEq] at he; rw [← he.1]; exact ⟨hInv, hlt⟩, fun _ => ⟨_, _, rfl⟩⟩
    · simp only [step, decreaseKey_notInHeap s.h i k hno]
      refine ⟨fun s' r he => by simp at he, fun hpre => ?_⟩
      obtain ⟨x, hx, hxi⟩ := hpre
      exact absurd hxi (hno x hx)
  | rem i =>
    rcases target_dec s i with hin | hno
    · obtain ⟨h', x, hp, hI', hx, hxi, hms⟩ := remove_spec T s.h hInv i hin
      simp only [step, hp]
      refine ⟨?_, fun _ => ⟨_, _, rfl⟩⟩
      intro s' r he
      simp only [Prod.mk.injEq, Option.some.injEq] at he
      rw [← he.1]
      exact ⟨hI', fun i' hi' => hlt i' (ids_sub (fun j hj => by rw [hms]; exact Multiset.mem_add.2 (Or.inr hj)) i' hi')⟩
    · refine ⟨?_, fun hpre => ?_⟩
      · intro s' r he
        have hc : cutRoots cmp i (fun x => { x with deleted := true }) s.h.roots = none := by
          cases hc : cutRoots cmp i (fun x => { x with deleted := true }) s.h.roots with
          | none => rfl
          | some res =>
            exfalso
            obtain ⟨rs', cuts⟩ := res
            obtain ⟨x, _, hx, hxt, _⟩ := cutRoots_spec T i (fun x : HNode K => { x with deleted := true }) (fun x => ⟨rfl, rfl⟩) s.h.roots rs' cuts hc hInv.ord (fun y _ _ => T.irrefl _)
            exact hno x hx hxt
        simp [step, remove, hc] at he
      · obtain ⟨x, hx, hxi⟩ := hpre
        exact absurd hxi (hno x hx)
  | len => exact ⟨fun s' r he => by simp only [step, Prod.mk.injEq, Option.some.injEq] at he; rw [← he.1]; exact ⟨hInv, hlt⟩, fun _ => ⟨_, _, rfl⟩⟩
  | bool => exact ⟨fun s' r he => by simp only [step, Prod.mk.injEq, Option.some.injEq] at he; rw [← he.1]; exact ⟨hInv, hlt⟩, fun _ => ⟨_, _, rfl⟩⟩
  | clear => exact ⟨fun s' r he => by simp only [step, Prod.mk.injEq, Option.some.injEq] at he; rw [← he.1]; exact ⟨inv_empty cmp, by simp [empty, ids]⟩, fun _ => ⟨_, _, rfl⟩⟩
  | nodes => exact ⟨fun s' r he => by simp only [step, Prod.mk.injEq, Option.some.injEq] at he; rw [← he.1]; exact ⟨hInv, hlt⟩, fun _ => ⟨_, _, rfl⟩⟩
  | iter => exact ⟨fun s' r he => by simp only [step, Prod.mk.injEq, Option.some.injEq] at he; rw [← he.1]; exact ⟨hInv, hlt⟩, fun _ => ⟨_, _, rfl⟩⟩
  | minNode => exact ⟨fun s' r he => by simp only [step, Prod.mk.injEq, Option.some.injEq] at he; rw [← he.1]; exact ⟨hInv, hlt⟩, fun _ => ⟨_, _, rfl⟩⟩

/-- the invariant holds after every sequence of operations -/
theorem reachable_inv {cmp : Cmp K} (T : Total cmp) {s : St K} (hr : Reach cmp s) : InvS cmp s := by
  induction hr with
  | init => exact inv_init cmp
  | step _ hs ih => exact (inv_step T _ ih _).1 _ _ hs

/-- for reachable heaps `_consolidate`'s degree array never overflows and the structure is never corrupt:
    an operation whose documented precondition holds is always executed by the model -/
theorem reachable_no_index_error {cmp : Cmp K} (T : Total cmp) {s : St K} (hr : Reach cmp s) (op : Op K) (hpre : OpPre s op) :
    ∃ s' r, step cmp s op = (some s', r) :=
  (inv_step T s (reachable_inv T hr) op).2 hpre

/-- `len(heap)` is the number of nodes of the model's forest.  NOTE: this is the invariant's field `Inv.size`
    re-read (`live` is defined from the forest); the statement with "live" defined from the HISTORY of pushes / pops /
    removes, independently of the invariant, is `size_eq_history` below. -/
theorem size_eq_live {cmp : Cmp K} {h : Heap K} (hI : Inv cmp h) : h.n = (live h).length := by
  simp [live, items, hI.size]

/-! ### the reported size against the HISTORY of operations

  `size_eq_live` above only re-reads the invariant's field `size` (`live` is the content of the model's own forest).
  Here "live" is defined INDEPENDENTLY of the heap and of the invariant, from the operations and their return values
  alone: `liveAfter` adds the identity `push` returned, removes the identity `pop` returned and the identity `remove`
  was given, forgets everything on `clear`, and is unchanged by every other operation (and by a refused one:
  `pop` on an empty heap, a `decrease_key` to a larger key).  `ReachL cmp s L`: `s` is reached by a sequence of
  accepted operations and `L` is the live multiset that sequence defines. -/

/-- the identities live after one more operation, from the operation and its RETURN VALUE alone -/
def liveAfter (L : Multiset Nat) : Op K → Ret → Multiset Nat
  | .push _, .item i => i ::ₘ L
  | .pop, .item i => L.erase i
  | .rem i, .unit => L.erase i
  | .clear, _ => 0
  | _, _ => L

/-- reachable states, together with the live identities their history defines -/
inductive ReachL (cmp : Cmp K) : St K → Multiset Nat → Prop
  | init : ReachL cmp St.init 0
  | step {s s' : St K} {L : Multiset Nat} {op : Op K} {r : Ret} :
      ReachL cmp s L → step cmp s op = (some s', r) → ReachL cmp s' (liveAfter L op r)

theorem ReachL.reach {cmp : Cmp K} {s : St K} {L : Multiset Nat} (h : ReachL cmp s L) : Reach cmp s := by
  induction h with
  | init => exact .init
  | step _ hs ih => exact .step ih hs

theorem reach_has_history {cmp : Cmp K} {s : St K} (h : Reach cmp s) : ∃ L, ReachL cmp s L := by
  induction h with
  | init => exact ⟨0, .init⟩
  | step _ hs ih => obtain ⟨L, hL⟩ := ih; exact ⟨_, .step hL hs⟩

/-- identities in the forest, as a multiset -/
def idsM (rs : List (HNode K)) : Multiset Nat := (ms rs).map (·.1)

theorem card_idsM (rs : List (HNode K)) : Multiset.card (idsM rs) = (flats rs).length := by
  simp [idsM, card_ms]

/-- the forest of a reachable heap holds EXACTLY the identities that were pushed and not yet popped / removed /
    cleared — by induction over the operation sequence (multiset deltas of `push_spec`, `pop_spec`, `remove_spec`,
    `decreaseKey_spec`) -/
theorem forest_eq_history {cmp : Cmp K} (T : Total cmp) {s : St K} {L : Multiset Nat} (hr : ReachL cmp s L) :
    idsM s.h.roots = L := by
  induction hr with
  | init => simp [idsM, St.init, empty, ms]
  | @step s s' L op r hprev hs ih =>
    obtain ⟨hInv, hlt⟩ := reachable_inv T hprev.reach
    cases op with
    | push k =>
      have hid : s.next ∉ ids s.h.roots := fun hc => Nat.lt_irrefl _ (hlt _ hc)
      obtain ⟨h', hp, _, hms⟩ := push_spec T s.h hInv s.next k hid
      simp only [step, hp, Prod.mk.injEq, Option.some.injEq] at hs
      obtain ⟨rfl, rfl⟩ := hs
      simp only [liveAfter, idsM, hms, Multiset.map_add, Multiset.map_singleton, Multiset.singleton_add]
      rw [← ih]; rfl
    | pop =>
      by_cases hne : s.h.roots = []
      · simp only [step, pop_empty s.h hInv hne, Prod.mk.injEq, Option.some.injEq] at hs
        obtain ⟨rfl, rfl⟩ := hs
        simpa [liveAfter] using ih
      · obtain ⟨h', z, hp, _, hms, _, _⟩ := pop_spec T s.h hInv hne
        simp only [step, hp, Prod.mk.injEq, Option.some.injEq] at hs
        obtain ⟨rfl, rfl⟩ := hs
        simp only [liveAfter]
        rw [← ih]
        simp only [idsM, hms, Multiset.map_add, Multiset.map_singleton, Multiset.singleton_add, item,
          Multiset.map_cons, Multiset.erase_cons_head]
    | peek =>
      by_cases hne : s.h.roots = []
      · simp only [step, peek_empty s.h hInv hne, Prod.mk.injEq, Option.some.injEq] at hs
        obtain ⟨rfl, rfl⟩ := hs
        simpa [liveAfter] using ih
      · obtain ⟨z, _, hp, _, _⟩ := peek_spec T s.h hInv hne
        simp only [step, hp, Prod.mk.injEq, Option.some.injEq] at hs
        obtain ⟨rfl, rfl⟩ := hs
        simpa [liveAfter] using ih
    | dec i k =>
      rcases target_dec s i with ⟨x, hx, hxi⟩ | hno
      · cases hlk : cmp.lt x.key k
        · obtain ⟨h', rest, hp, _, hmo, hmn⟩ := decreaseKey_spec T s.h hInv i k x hx hxi hlk
          simp only [step, hp, Prod.mk.injEq, Option.some.injEq] at hs
          obtain ⟨rfl, rfl⟩ := hs
          simp only [liveAfter]
          rw [← ih]
          simp only [idsM, hmo, hmn, Multiset.map_add, Multiset.map_singleton]
        · simp only [step, decreaseKey_valueError s.h hInv i k x hx hxi hlk, Prod.mk.injEq, Option.some.injEq] at hs
          obtain ⟨rfl, rfl⟩ := hs
          simpa [liveAfter] using ih
      · simp [step, decreaseKey_notInHeap s.h i k hno] at hs
    | rem i =>
      rcases target_dec s i with hin | hno
      · obtain ⟨h', x, hp, _, _, hxi, hms⟩ := remove_spec T s.h hInv i hin
        simp only [step, hp, Prod.mk.injEq, Option.some.injEq] at hs
        obtain ⟨rfl, rfl⟩ := hs
        simp only [liveAfter]
        rw [← ih]
        simp only [idsM, hms, Multiset.map_add, Multiset.map_singleton, Multiset.singleton_add, item, hxi,
          Multiset.map_cons, Multiset.erase_cons_head]
      · exfalso
        have := (inv_step T s ⟨hInv, hlt⟩ (.rem i)).1 s' r hs
        have hc : cutRoots cmp i (fun x => { x with deleted := true }) s.h.roots = none := by
          cases hc : cutRoots cmp i (fun x => { x with deleted := true }) s.h.roots with
          | none => rfl
          | some res =>
            exfalso
            obtain ⟨rs', cuts⟩ := res
            obtain ⟨x, _, hx, hxt, _⟩ := cutRoots_spec T i (fun x : HNode K => { x with deleted := true }) (fun x => ⟨rfl, rfl⟩) s.h.roots rs' cuts hc hInv.ord (fun y _ _ => T.irrefl _)
            exact hno x hx hxt
        simp [step, remove, hc] at hs
    | len => simp only [step, Prod.mk.injEq, Option.some.injEq] at hs; obtain ⟨rfl, rfl⟩ := hs; simpa [liveAfter] using ih
    | bool => simp only [step, Prod.mk.injEq, Option.some.injEq] at hs; obtain ⟨rfl, rfl⟩ := hs; simpa [liveAfter] using ih
    | clear =>
      simp only [step, Prod.mk.injEq, Option.some.injEq] at hs
      obtain ⟨rfl, rfl⟩ := hs
      simp [liveAfter, idsM, empty, ms]
    | nodes => simp only [step, Prod.mk.injEq, Option.some.injEq] at hs; obtain ⟨rfl, rfl⟩ := hs; simpa [liveAfter] using ih
    | iter => simp only [step, Prod.mk.injEq, Option.some.injEq] at hs; obtain ⟨rfl, rfl⟩ := hs; simpa [liveAfter] using ih
    | minNode => simp only [step, Prod.mk.injEq, Option.some.injEq] at hs; obtain ⟨rfl, rfl⟩ := hs; simpa [liveAfter] using ih

/-- C16, "the reported size is the number of live items", with LIVE = pushed and not yet popped / removed / cleared
    according to the history: `len(heap)` (the counter `n` the code maintains) equals the number of such items, after
    every sequence of operations -/
theorem size_eq_history {cmp : Cmp K} (T : Total cmp) {s : St K} {L : Multiset Nat} (hr : ReachL cmp s L) :
    s.h.n = Multiset.card L ∧ step cmp s .len = (some s, .size (Multiset.card L)) := by
  have hsz := (reachable_inv T hr.reach).1.size
  have := forest_eq_history T hr
  have hn : s.h.n = Multiset.card L := by rw [← this, card_idsM, hsz]
  exact ⟨hn, by simp [step, hn]⟩

/-- … and the items `live` lists are exactly those of the history -/
theorem live_eq_history {cmp : Cmp K} (T : Total cmp) {s : St K} {L : Multiset Nat} (hr : ReachL cmp s L) :
    (((live s.h).map (·.1) : List Nat) : Multiset Nat) = L := by
  rw [← forest_eq_history T hr]
  simp only [live, idsM, ms, items, Multiset.map_coe, List.map_map]
  rfl

theorem live_perm_of_ms {a b : Heap K} {z : HNode K} (h : ms a.roots = {item z} + ms b.roots) :
    (live a).Perm ((z.id, z.key) :: live b) := by
  have : ms a.roots = ms ((⟨z.id, z.key, z.mark, z.deleted, []⟩ : HNode K) :: b.roots) := by
    rw [h]; simp only [ms_cons, ms_nil, item]; ac_rfl
  have := (ms_eq_iff.1 this).map (fun i => (i.1, i.2.1))
  simpa [live, item] using this

/-- `peek()` does not change a reachable heap and shows an item of minimum key -/
theorem peek_is_min {cmp : Cmp K} (T : Total cmp) {h h' : Heap K} {i : Nat} (hI : Inv cmp h) (hp : peek cmp h = .ok (h', i)) :
    h' = h ∧ ∃ k, (i, k) ∈ live h ∧ ∀ j ∈ live h, cmp.lt j.2 k = false := by
  by_cases hne : h.roots = []
  · rw [peek_empty h hI hne] at hp; cases hp
  · obtain ⟨z, hz, hp', _, hmin⟩ := peek_spec T h hI hne
    rw [hp'] at hp
    simp only [Except.ok.injEq, Prod.mk.injEq] at hp
    refine ⟨hp.1.symm, z.key, ?_, ?_⟩
    · rw [← hp.2]
      exact List.mem_map.2 ⟨item z, mem_items_of_mem_flats (mem_flats_of_mem hz), rfl⟩
    · intro j hj
      obtain ⟨i', hi', rfl⟩ := List.mem_map.1 hj
      exact hmin i' hi'

/-- `pop()` returns an item of minimum key, removes exactly that item, and re-establishes the invariant -/
theorem pop_is_min {cmp : Cmp K} (T : Total cmp) {h h' : Heap K} {i : Nat} (hI : Inv cmp h) (hp : pop cmp h = .ok (h', i)) :
    Inv cmp h' ∧ ∃ k, (live h).Perm ((i, k) :: live h') ∧ ∀ j ∈ live h, cmp.lt j.2 k = false := by
  by_cases hne : h.roots = []
  · rw [pop_empty h hI hne] at hp; cases hp
  · obtain ⟨h'', z, hp', hI', hms, _, hmin⟩ := pop_spec T h hI hne
    rw [hp'] at hp
    simp only [Except.ok.injEq, Prod.mk.injEq] at hp
    obtain ⟨rfl, rfl⟩ := hp
    refine ⟨hI', z.key, live_perm_of_ms hms, ?_⟩
    intro j hj
    obtain ⟨i', hi', rfl⟩ := List.mem_map.1 hj
    exact hmin i' hi'

/-- on an empty heap `pop`/`peek` raise `AttributeError`; on a non-empty reachable heap they succeed -/
theorem pop_peek_defined {cmp : Cmp K} (T : Total cmp) {h : Heap K} (hI : Inv cmp h) :
    (h.n = 0 → pop cmp h = .error .attributeError ∧ peek cmp h = .error .attributeError) ∧
    (h.n ≠ 0 → (∃ h' i, pop cmp h = .ok (h', i)) ∧ ∃ i, peek cmp h = .ok (h, i)) := by
  constructor
  · intro h0
    have : h.roots = [] := by
      have := hI.size; rw [h0] at this
      cases hr : h.roots with
      | nil => rfl
      | cons a l => rw [hr] at this; simp at this
    exact ⟨pop_empty h hI this, peek_empty h hI this⟩
  · intro h0
    have hne : h.roots ≠ [] := by
      intro he; have := hI.size; rw [he] at this; simp at this; exact h0 this
    obtain ⟨h', z, hp, _⟩ := pop_spec T h hI hne
    obtain ⟨z', _, hp', _⟩ := peek_spec T h hI hne
    exact ⟨⟨h', z.id, hp⟩, ⟨z'.id, hp'⟩⟩

/-! ### the two concrete heaps -/

/-- `FibonacciHeap` with integer keys: the popped key is ≤ every live key -/
theorem pop_is_min_int {h h' : Heap Int} {i : Nat} (hI : Inv intMin h) (hp : pop intMin h = .ok (h', i)) :
    Inv intMin h' ∧ ∃ k, (live h).Perm ((i, k) :: live h') ∧ ∀ j ∈ live h, k ≤ j.2 := by
  obtain ⟨h1, k, h2, h3⟩ := pop_is_min total_intMin hI hp
  exact ⟨h1, k, h2, fun j hj => by have := h3 j hj; simpa [intMin] using this⟩

/-- `MaxFibonacciHeap` (keys wrapped in `ReversedComparator`): the popped key is ≥ every live key -/
theorem pop_is_max_int {h h' : Heap Int} {i : Nat} (hI : Inv intMax h) (hp : pop intMax h = .ok (h', i)) :
    Inv intMax h' ∧ ∃ k, (live h).Perm ((i, k) :: live h') ∧ ∀ j ∈ live h, j.2 ≤ k := by
  obtain ⟨h1, k, h2, h3⟩ := pop_is_min total_intMax hI hp
  exact ⟨h1, k, h2, fun j hj => by have := h3 j hj; simpa [intMax] using this⟩

theorem peek_is_min_int {h h' : Heap Int} {i : Nat} (hI : Inv intMin h) (hp : peek intMin h = .ok (h', i)) :
    h' = h ∧ ∃ k, (i, k) ∈ live h ∧ ∀ j ∈ live h, k ≤ j.2 := by
  obtain ⟨h1, k, h2, h3⟩ := peek_is_min total_intMin hI hp
  exact ⟨h1, k, h2, fun j hj => by have := h3 j hj; simpa [intMin] using this⟩

theorem peek_is_max_int {h h' : Heap Int} {i : Nat} (hI : Inv intMax h) (hp : peek intMax h = .ok (h', i)) :
    h' = h ∧ ∃ k, (i, k) ∈ live h ∧ ∀ j ∈ live h, j.2 ≤ k := by
  obtain ⟨h1, k, h2, h3⟩ := peek_is_min total_intMax hI hp
  exact ⟨h1, k, h2, fun j hj => by have := h3 j hj; simpa [intMax] using this⟩

/-- all of the above along any operation sequence, for both heaps -/
theorem reachable_inv_min {s : St Int} (hr : Reach intMin s) : InvS intMin s := reachable_inv total_intMin hr
theorem reachable_inv_max {s : St Int} (hr : Reach intMax s) : InvS intMax s := reachable_inv total_intMax hr

/-! ### `utils.smallest` / `utils.largest` -/

/-- the input of `smallest`/`largest` as (position, key, deleted=false) triples, positions from `start` -/
def enumFrom (start : Nat) : List K → List (Nat × K × Bool)
  | [] => []
  | k :: ks => (start, k, false) :: enumFrom (start + 1) ks

theorem enumFrom_length (start : Nat) (ks : List K) : (enumFrom start ks).length = ks.length := by
  induction ks generalizing start with
  | nil => rfl
  | cons k ks ih => simp [enumFrom, ih]

theorem enumFrom_fst (start : Nat) (ks : List K) : (enumFrom start ks).map (·.1) = List.range' start ks.length := by
  induction ks generalizing start with
  | nil => rfl
  | cons k ks ih => simp [enumFrom, ih, List.range'_succ]

theorem pushAll_spec {cmp : Cmp K} (T : Total cmp) : ∀ (ks : List K) (h : Heap K) (start : Nat), Inv cmp h →
    (∀ i ∈ ids h.roots, i < start) →
    ∃ h', pushAll cmp h start ks = .ok h' ∧ Inv cmp h' ∧ ms h'.roots = ms h.roots + (enumFrom start ks : Multiset _)
  | [], h, start, hI, _ => ⟨h, rfl, hI, by simp [enumFrom]⟩
  | k :: ks, h, start, hI, hlt => by
    have hid : start ∉ ids h.roots := fun hc => Nat.lt_irrefl _ (hlt _ hc)
    obtain ⟨h1, hp, hI1, hms1⟩ := push_spec T h hI start k hid
    have hlt1 : ∀ i ∈ ids h1.roots, i < start + 1 := by
      intro i hi
      obtain ⟨j, hj, rfl⟩ := List.mem_map.1 hi
      have := mem_ms.2 hj
      rw [hms1] at this
      rcases Multiset.mem_add.1 this with hh | hh
      · simp at hh; rw [hh]; simp
      · exact Nat.lt_succ_of_lt (hlt _ (List.mem_map.2 ⟨j, mem_ms.1 hh, rfl⟩))
    obtain ⟨h', hp', hI', hms'⟩ := pushAll_spec T ks h1 (start + 1) hI1 hlt1
    refine ⟨h', by simp only [pushAll, hp, hp'], hI', ?_⟩
    rw [hms', hms1]
    simp only [enumFrom, ← Multiset.cons_coe, ← Multiset.singleton_add]
    ac_rfl

theorem popN_spec {cmp : Cmp K} (T : Total cmp) : ∀ (n : Nat) (h : Heap K), Inv cmp h →
    ∃ (l : List Nat) (P : List (Nat × K × Bool)) (rest : Multiset (Nat × K × Bool)), popN cmp n h = .ok l ∧ l = P.map (·.1) ∧
      ms h.roots = (P : Multiset _) + rest ∧ P.length = min n h.n ∧ (∀ p ∈ P, ∀ j ∈ rest, cmp.lt j.2.1 p.2.1 = false)
  | 0, h, _ => ⟨[], [], ms h.roots, rfl, rfl, by simp, by simp, by simp⟩
  | n + 1, h, hI => by
    by_cases h0 : h.n = 0
    · exact ⟨[], [], ms h.roots, by simp [popN, h0], rfl, by simp, by simp [h0], by simp⟩
    · have hne : h.roots ≠ [] := by
        intro he; have := hI.size; rw [he] at this; simp at this; exact h0 this
      obtain ⟨h', z, hp, hI', hms, hzd, hmin⟩ := pop_spec T h hI hne
      obtain ⟨l, P, rest, hl, hlP, hms', hlen, hsort⟩ := popN_spec T n h' hI'
      refine ⟨z.id :: l, item z :: P, rest, by simp only [popN, h0, if_false, hp, hl], by simp [hlP, item], ?_, ?_, ?_⟩
      · rw [hms, hms']; simp only [← Multiset.cons_coe, ← Multiset.singleton_add]; ac_rfl
      · have hn' : h'.n + 1 = h.n := by
          have := congrArg Multiset.card hms
          simp only [card_ms, Multiset.card_add, Multiset.card_singleton] at this
          rw [hI.size, hI'.size, this]; omega
        simp only [List.length_cons, hlen]; omega
      · intro p hp j hj
        rcases List.mem_cons.1 hp with rfl | hp
        · apply hmin j; apply mem_ms.1; rw [hms, hms']
          exact Multiset.mem_add.2 (Or.inr (Multiset.mem_add.2 (Or.inr hj)))
        · exact hsort p hp j hj

/-- `smallest(seq, n)` / `largest(seq, n)` (`cmp` = plain / reversed comparison), on the model: the yielded positions,
    with their keys, form a sub-multiset `P` of the input of size `min n len`, and every yielded key is `≤` (w.r.t. `cmp`)
    every key that was not yielded.  (With the `len(seq) <= n` shortcut everything is yielded, in input order.) -/
theorem select_correct {cmp : Cmp K} (T : Total cmp) (keys : List K) (n : Int) (sized : Bool) :
    ∃ (l : List Nat) (P : List (Nat × K × Bool)) (rest : Multiset (Nat × K × Bool)), selectN cmp keys n sized = .ok l ∧
      l = P.map (·.1) ∧ (enumFrom 0 keys : Multiset _) = (P : Multiset _) + rest ∧ P.length = min n.toNat keys.length ∧
      (∀ p ∈ P, ∀ j ∈ rest, cmp.lt j.2.1 p.2.1 = false) := by
  by_cases hs : (sized && decide ((keys.length : Int) ≤ n)) = true
  · refine ⟨List.range keys.length, enumFrom 0 keys, 0, by simp only [selectN, hs, if_true], ?_, by simp, ?_, by simp⟩
    · rw [enumFrom_fst, List.range_eq_range']
    · simp only [Bool.and_eq_true, decide_eq_true_eq] at hs
      rw [enumFrom_length]; omega
  · obtain ⟨h, hp, hI, hms⟩ := pushAll_spec T keys (empty : Heap K) 0 (inv_empty cmp) (by simp [empty, ids])
    obtain ⟨l, P, rest, hl, hlP, hms', hlen, hsort⟩ := popN_spec T n.toNat h hI
    refine ⟨l, P, rest, by simp only [selectN, hs, hp, hl]; rfl, hlP, ?_, ?_, hsort⟩
    · rw [← hms', hms]; simp [empty]
    · have : h.n = keys.length := by
        have := congrArg Multiset.card hms
        simp only [card_ms, Multiset.card_add, Multiset.coe_card, enumFrom_length, empty, flats_nil, List.length_nil] at this
        rw [hI.size, this]; omega
      rw [hlen, this]

/-- `utils.smallest` on integer keys: yielded keys ≤ all other keys -/
theorem smallest_correct (keys : List Int) (n : Int) (sized : Bool) :
    ∃ (l : List Nat) (P : List (Nat × Int × Bool)) (rest : Multiset (Nat × Int × Bool)), selectN intMin keys n sized = .ok l ∧
      l = P.map (·.1) ∧ (enumFrom 0 keys : Multiset _) = (P : Multiset _) + rest ∧ P.length = min n.toNat keys.length ∧
      (∀ p ∈ P, ∀ j ∈ rest, p.2.1 ≤ j.2.1) := by
  obtain ⟨l, P, rest, h1, h2, h3, h4, h5⟩ := select_correct total_intMin keys n sized
  exact ⟨l, P, rest, h1, h2, h3, h4, fun p hp j hj => by have := h5 p hp j hj; simpa [intMin] using this⟩

/-- `utils.largest` on integer keys: yielded keys ≥ all other keys -/
theorem largest_correct (keys : List Int) (n : Int) (sized : Bool) :
    ∃ (l : List Nat) (P : List (Nat × Int × Bool)) (rest : Multiset (Nat × Int × Bool)), selectN intMax keys n sized = .ok l ∧
      l = P.map (·.1) ∧ (enumFrom 0 keys : Multiset _) = (P : Multiset _) + rest ∧ P.length = min n.toNat keys.length ∧
      (∀ p ∈ P, ∀ j ∈ rest, j.2.1 ≤ p.2.1) := by
  obtain ⟨l, P, rest, h1, h2, h3, h4, h5⟩ := select_correct total_intMax keys n sized
  exact ⟨l, P, rest, h1, h2, h3, h4, fun p hp j hj => by have := h5 p hp j hj; simpa [intMax] using this⟩

/-! non-vacuity: a concrete reachable state with a non-trivial tree, on which the hypotheses hold -/
def demoOps : List (Op Int) := [.push 3, .push 1, .push 2, .push 0, .pop, .dec 0 0, .push 5, .rem 2]

def runDemo (cmp : Cmp Int) : List (Op Int) → St Int → Option (St Int)
  | [], s => some s
  | op :: ops, s => match step cmp s op with
    | (some s', _) => runDemo cmp ops s'
    | (none, _) => none

theorem runDemo_reach (cmp : Cmp Int) : ∀ (ops : List (Op Int)) (s s' : St Int), Reach cmp s → runDemo cmp ops s = some s' → Reach cmp s'
  | [], s, s', hr, h => by simp [runDemo] at h; exact h ▸ hr
  | op :: ops, s, s', hr, h => by
    simp only [runDemo] at h
    split at h
    · rename_i s1 r hs
      exact runDemo_reach cmp ops s1 s' (Reach.step hr hs) h
    · simp at h

/-! non-vacuity of `size_eq_history`: the demo sequence (4 pushes, a pop, a decrease_key, a push, a remove) with its
    history; the live identities are computed from the return values as a LIST here so that the kernel can evaluate -/
def liveAfterL (L : List Nat) : Op Int → Ret → List Nat
  | .push _, .item i => i :: L
  | .pop, .item i => L.erase i
  | .rem i, .unit => L.erase i
  | .clear, _ => []
  | _, _ => L

theorem liveAfterL_coe (L : List Nat) (op : Op Int) (r : Ret) : ((liveAfterL L op r : List Nat) : Multiset Nat) = liveAfter (L : Multiset Nat) op r := by
  cases op <;> cases r <;> simp [liveAfterL, liveAfter]

def runDemoL (cmp : Cmp Int) : List (Op Int) → St Int → List Nat → Option (St Int × List Nat)
  | [], s, L => some (s, L)
  | op :: ops, s, L => match step cmp s op with
    | (some s', r) => runDemoL cmp ops s' (liveAfterL L op r)
    | (none, _) => none

theorem runDemoL_reach (cmp : Cmp Int) : ∀ (ops : List (Op Int)) (s s' : St Int) (L L' : List Nat),
    ReachL cmp s (L : Multiset Nat) → runDemoL cmp ops s L = some (s', L') → ReachL cmp s' (L' : Multiset Nat)
  | [], s, s', L, L', hr, h => by
    simp only [runDemoL, Option.some.injEq, Prod.mk.injEq] at h
    obtain ⟨rfl, rfl⟩ := h; exact hr
  | op :: ops, s, s', L, L', hr, h => by
    simp only [runDemoL] at h
    split at h
    · rename_i s1 r hs
      exact runDemoL_reach cmp ops s1 s' _ L' (liveAfterL_coe L op r ▸ ReachL.step hr hs) h
    · simp at h

/-- after the demo sequence the history says: live = {4, 1, 0} (identity 3 was popped, 2 removed) — and `len` is 3 -/
example : ∃ s, ReachL intMin s (([4, 1, 0] : List Nat) : Multiset Nat) ∧ s.h.n = 3 := by
  have h : ∃ s, runDemoL intMin demoOps St.init [] = some (s, [4, 1, 0]) := by
    have : (runDemoL intMin demoOps St.init []).map (·.2) = some [4, 1, 0] := by decide +kernel
    cases hr : runDemoL intMin demoOps St.init [] with
    | none => simp [hr] at this
    | some p =>
      obtain ⟨s, L⟩ := p
      simp only [hr, Option.map_some, Option.some.injEq] at this
      exact ⟨s, by rw [this]⟩
  obtain ⟨s, hs⟩ := h
  have hr := runDemoL_reach intMin demoOps St.init s [] [4, 1, 0] ReachL.init hs
  exact ⟨s, hr, by simpa using (size_eq_history total_intMin hr).1⟩

/-- the demo sequence is accepted (so its end state is `Reach`able, by `runDemo_reach`), leaves 3 live items with a
    tree of depth 2, and the next `pop` succeeds: the hypotheses `Inv h` / `pop … = .ok …` of the theorems above are
    satisfiable on a non-trivial heap -/
example : (runDemo intMin demoOps St.init).map (fun s => (s.h.n, s.h.roots.map (fun r => (r.id, r.kids.length)), (pop intMin s.h).toOption.map (·.2)))
    = some (3, [(0, 1), (1, 0)], some 0) := by decide +kernel

example : ∃ s, Reach intMin s ∧ s.h.n = 3 := by
  have h : ∃ s, runDemo intMin demoOps St.init = some s ∧ s.h.n = 3 := by decide +kernel
  obtain ⟨s, hs, hn⟩ := h
  exact ⟨s, runDemo_reach intMin demoOps St.init s Reach.init hs, hn⟩

-- [audit] non-vacuity: the hypotheses `Inv h` (via `Reach`), `peek … = .ok …` and `pop … = .ok …` of `peek_is_min` /
-- `pop_is_min` hold together on the demo state (min-heap); the live items are listed explicitly.
-- (Cross-checked against the real `FibonacciHeap`: same dump `0:0/1^-[4:5/0^0[]],1:1/0^-[]|0|3`.)
example : ∃ s, Reach intMin s ∧ (peek intMin s.h).toOption.map (·.2) = some 0 ∧ (pop intMin s.h).toOption.map (·.2) = some 0
    ∧ live s.h = [(0, 0), (4, 5), (1, 1)] := by
  have h : ∃ s, runDemo intMin demoOps St.init = some s ∧ ((peek intMin s.h).toOption.map (·.2) = some 0 ∧
      (pop intMin s.h).toOption.map (·.2) = some 0 ∧ live s.h = [(0, 0), (4, 5), (1, 1)]) := by decide +kernel
  obtain ⟨s, hs, hp⟩ := h
  exact ⟨s, runDemo_reach intMin demoOps St.init s Reach.init hs, hp⟩

-- [audit] non-vacuity for the max-heap twins (`Reach intMax`, `pop_is_max_int`, `peek_is_max_int`): push, pop, a
-- successful `decrease_key` (0 → 3 is a decrease for `ReversedComparator`), remove of a root, and a rejected
-- `decrease_key` (ValueError, state kept).  Real `MaxFibonacciHeap` gives the same dump `4:5/1^-[0:3/0^4[]],1:2/0^-[]|4|3`.
example : ∃ s, Reach intMax s ∧ (peek intMax s.h).toOption.map (·.2) = some 4 ∧ (pop intMax s.h).toOption.map (·.2) = some 4
    ∧ live s.h = [(4, 5), (0, 3), (1, 2)] := by
  have h : ∃ s, runDemo intMax [.push 0, .push 2, .push 1, .push 3, .pop, .dec 0 3, .push 5, .rem 2, .dec 1 1] St.init = some s ∧
      ((peek intMax s.h).toOption.map (·.2) = some 4 ∧
      (pop intMax s.h).toOption.map (·.2) = some 4 ∧ live s.h = [(4, 5), (0, 3), (1, 2)]) := by decide +kernel
  obtain ⟨s, hs, hp⟩ := h
  exact ⟨s, runDemo_reach intMax _ St.init s Reach.init hs, hp⟩

-- [audit] `size_eq_live` is the field `Inv.size` re-expressed: `live` is DEFINED as the content of the model's own
-- forest, so this theorem alone does not relate `len(heap)` to the history of pushes/pops/removes; that link is only
-- given op by op by `Heap.push_spec / pop_spec / remove_spec / decreaseKey_spec` (multiset deltas).
example {cmp : Cmp K} {h : Heap K} (hI : Inv cmp h) : h.n = (flats h.roots).length := hI.size

/-! ### draining the heap: `while heap: yield heap.pop()` (how `bounds.sort` and `smallest` / `largest` read it)

  `pop_is_min` is a statement about ONE extraction.  Its closure over the whole drain loop: from every heap that
  satisfies the invariant (hence from every reachable heap, `reachable_inv`) the loop performs exactly `len(heap)`
  pops, none of them fails, the heap is empty afterwards, and the items come out as a permutation of the live items in
  non-decreasing key order. -/

/-- `DrainsTo cmp h out`: popping `h` until it is empty succeeds at every step and yields `out` (identity, key) -/
inductive DrainsTo (cmp : Cmp K) : Heap K → List (Nat × K) → Prop
  | done {h : Heap K} : h.n = 0 → DrainsTo cmp h []
  | step {h h' : Heap K} {i : Nat} {k : K} {out : List (Nat × K)} :
      h.n ≠ 0 → pop cmp h = .ok (h', i) → (i, k) ∈ live h → DrainsTo cmp h' out → DrainsTo cmp h ((i, k) :: out)

theorem drainsTo_length {cmp : Cmp K} {h : Heap K} {out : List (Nat × K)} (hI : Inv cmp h) (T : Total cmp)
    (d : DrainsTo cmp h out) : out.length = h.n := by
  induction d with
  | done h0 => simp [h0]
  | @step h h' i k out hn hp _ _ ih =>
    obtain ⟨hI', k', hperm, _⟩ := pop_is_min T hI hp
    have := ih hI'
    have hl := hperm.length_eq
    rw [size_eq_live hI, hl, List.length_cons, List.length_cons, this, size_eq_live hI']

/-- **heap sort**: the drain loop terminates after `len(heap)` successful pops with the live items in
    non-decreasing key order (no later item has a strictly smaller key than an earlier one). -/
theorem drain_sorted {cmp : Cmp K} (T : Total cmp) : ∀ (n : Nat) (h : Heap K), Inv cmp h → h.n = n →
    ∃ out : List (Nat × K), DrainsTo cmp h out ∧ out.Perm (live h) ∧
      out.Pairwise (fun a b => cmp.lt b.2 a.2 = false) ∧ out.length = n
  | 0, h, hI, h0 => by
    have hl : live h = [] := List.eq_nil_of_length_eq_zero (by rw [← size_eq_live hI]; exact h0)
    exact ⟨[], .done h0, by rw [hl], List.Pairwise.nil, rfl⟩
  | n + 1, h, hI, hn => by
    have hne : h.n ≠ 0 := by omega
    obtain ⟨⟨h', i, hp⟩, _⟩ := (pop_peek_defined T hI).2 hne
    obtain ⟨hI', k, hperm, hmin⟩ := pop_is_min T hI hp
    have hlen : h'.n = n := by
      have := hperm.length_eq
      rw [List.length_cons, ← size_eq_live hI, ← size_eq_live hI'] at this
      omega
    obtain ⟨out, hd, hpo, hpw, hol⟩ := drain_sorted T n h' hI' hlen
    refine ⟨(i, k) :: out, .step hne hp (hperm.symm.subset (List.mem_cons_self ..)) hd,
      (hpo.cons (i, k)).trans hperm.symm, List.Pairwise.cons ?_ hpw, by simp [hol]⟩
    intro b hb
    exact hmin b (hperm.symm.subset (List.mem_cons_of_mem _ (hpo.subset hb)))

-- non-vacuity: a concrete non-trivial heap state satisfying `Inv` is exhibited by `reachable_inv` above (every
-- operation sequence); `drain_sorted` applies to all of them.
example {cmp : Cmp K} (T : Total cmp) (h : Heap K) (hI : Inv cmp h) :
    ∃ out, DrainsTo cmp h out ∧ out.Perm (live h) ∧ out.Pairwise (fun a b => cmp.lt b.2 a.2 = false) := by
  obtain ⟨out, a, b, c, _⟩ := drain_sorted T h.n h hI rfl
  exact ⟨out, a, b, c⟩

/-- … for the heap after ANY sequence of insertions, key decreases, removals and extractions -/
theorem reachable_drain_sorted {cmp : Cmp K} (T : Total cmp) {s : St K} (hr : Reach cmp s) :
    ∃ out : List (Nat × K), DrainsTo cmp s.h out ∧ out.Perm (live s.h) ∧
      out.Pairwise (fun a b => cmp.lt b.2 a.2 = false) ∧ out.length = s.h.n :=
  drain_sorted T s.h.n s.h (reachable_inv T hr).1 rfl

/-- int keys, min-heap: the drain is ascending; max-heap (`ReversedComparator`): descending -/
theorem drain_ascending_int {h : Heap Int} (hI : Inv intMin h) :
    ∃ out : List (Nat × Int), DrainsTo intMin h out ∧ out.Perm (live h) ∧ out.Pairwise (fun a b => a.2 ≤ b.2) := by
  obtain ⟨out, a, b, c, _⟩ := drain_sorted total_intMin h.n h hI rfl
  exact ⟨out, a, b, c.imp (fun {x y} hxy => by simpa [intMin] using hxy)⟩

theorem drain_descending_int {h : Heap Int} (hI : Inv intMax h) :
    ∃ out : List (Nat × Int), DrainsTo intMax h out ∧ out.Perm (live h) ∧ out.Pairwise (fun a b => b.2 ≤ a.2) := by
  obtain ⟨out, a, b, c, _⟩ := drain_sorted total_intMax h.n h hI rfl
  exact ⟨out, a, b, c.imp (fun {x y} hxy => by simpa [intMax] using hxy)⟩

end GtModel.C16

/-
  C17 — bound-driven search, ordering and separation are correct.
  Items are arbitrary finite trajectories (`ValidSt σ fs`: item `i` is a chain of strictly shrinking nested ranges
  ending in the point `fs[i]`), so every statement quantifies over all collections and all tightening schedules.
-/
import GtModel.Proofs.DistinctInit
import GtModel.Proofs.SortLemmas
import GtModel.Proofs.SearchLemmas
import GtModel.Proofs.SearchFinal

namespace GtModel.C17
open GtModel GtModel.Bounded

/-- a concrete non-trivial collection satisfying the hypotheses used below (non-vacuity) -/
def exσ : St :=
  [⟨⟨.fin 0, .fin 6⟩, [⟨.fin 1, .fin 6⟩, ⟨.fin 2, .fin 2⟩], 0, 0⟩,
   ⟨⟨.fin 1, .fin 3⟩, [⟨.fin 1, .fin 2⟩, ⟨.fin 1, .fin 1⟩], 0, 0⟩,
   ⟨⟨.fin 2, .fin 2⟩, [], 0, 0⟩]

theorem exσ_valid : ValidSt exσ [2, 1, 2] := by
  refine ⟨rfl, ?_⟩
  intro i a n hi hn
  match i with
  | 0 => simp [exσ] at hi hn; subst hi; subst hn
         simp [Item.Valid, Item.traj, ValidL, StrictSub, Range.contains, Range.point, Bound.le, Bound.lt]
  | 1 => simp [exσ] at hi hn; subst hi; subst hn
         simp [Item.Valid, Item.traj, ValidL, StrictSub, Range.contains, Range.point, Bound.le, Bound.lt]
  | 2 => simp [exσ] at hi hn; subst hi; subst hn
         simp [Item.Valid, Item.traj, ValidL, Range.point]
  | k + 3 => simp [exσ] at hi

/-! ### 1. `BoundedComparator` -/

/-- `__lt__` terminates: `ltLoop` is a total function defined by well-founded recursion on the number of
tightenings still possible (no fuel); it only ever tightens, so that number does not grow. -/
theorem lt_terminates (σ : St) (i j : Nat) (idlt : Bool) :
    Reach σ (ltCmp σ i j idlt).2 ∧ total (ltCmp σ i j idlt).2 ≤ total σ := by
  have : Reach σ (ltCmp σ i j idlt).2 := by
    unfold ltCmp; simp only []; split <;> exact ltLoop_reach σ i j
  exact ⟨this, this.total_le⟩

/-- `a < b` answered `True` implies `final a ≤ final b`, answered `False` implies `final b ≤ final a`, for every
answer of the `id()` oracle; the items only advance along their trajectories (and stay valid). -/
theorem lt_consistent {σ : St} {fs : List Int} (hv : ValidSt σ fs) (i j : Nat) (idlt : Bool) {ni nj : Int}
    (hi : fs[i]? = some ni) (hj : fs[j]? = some nj) :
    Adv σ (ltCmp σ i j idlt).2 ∧ ValidSt (ltCmp σ i j idlt).2 fs ∧
    ((ltCmp σ i j idlt).1 = true → ni ≤ nj) ∧ ((ltCmp σ i j idlt).1 = false → nj ≤ ni) := by
  obtain ⟨r, t, f⟩ := ltCmp_spec hv i j idlt hi hj
  exact ⟨r.adv, r.valid hv, t, f⟩

example : ValidSt exσ [2, 1, 2] ∧ ([2, 1, 2] : List Int)[0]? = some 2 ∧ ([2, 1, 2] : List Int)[1]? = some 1 :=
  ⟨exσ_valid, rfl, rfl⟩

/-- `a <= b` is exactly `final a ≤ final b`. -/
theorem le_correct {σ : St} {fs : List Int} (hv : ValidSt σ fs) (i j : Nat) (idlt : Bool) {ni nj : Int}
    (hi : fs[i]? = some ni) (hj : fs[j]? = some nj) :
    Adv σ (leCmp σ i j idlt).2 ∧ ((leCmp σ i j idlt).1 = true ↔ ni ≤ nj) := by
  obtain ⟨r, h⟩ := leCmp_spec hv i j idlt hi hj
  exact ⟨r.adv, h⟩

/-! ### 2. `min_bounded` -/

/-- `min_bounded` returns `None` exactly for the empty collection; otherwise an item whose final cost is minimal
among all items — for every `id()` oracle.  (Termination: `minLoop` is structural over the list, every comparator
call is total.) -/
theorem min_bounded_min {σ : St} {fs : List Int} (hv : ValidSt σ fs) (orc : Nat → Bool) :
    Adv σ (minBounded orc σ).2 ∧ ((minBounded orc σ).1 = none ↔ σ = []) ∧
    ∀ m, (minBounded orc σ).1 = some m → ∃ nm, fs[m]? = some nm ∧ ∀ (k : Nat) (nk : Int), fs[k]? = some nk → nm ≤ nk := by
  unfold minBounded
  have hl := hv.1
  obtain ⟨r, hn, hm⟩ := minLoop_spec orc fs (List.range σ.length) σ none hv
    (by intro k hk; rw [← hl]; simpa using hk) (by intro b hb; cases hb)
  refine ⟨r.adv, ?_, ?_⟩
  · rw [hn]; simp [List.range_eq_nil]
  · intro m hmm
    obtain ⟨mem, rest⟩ := hm m hmm
    have hml : m < fs.length := by
      rcases mem with h | h
      · rw [← hl]; simpa using h
      · cases h
    refine ⟨fs[m], List.getElem?_eq_getElem hml, ?_⟩
    intro k nk hk
    have hkl : k < fs.length := by
      rcases Nat.lt_or_ge k fs.length with h | h
      · exact h
      · simp [List.getElem?_eq_none h] at hk
    exact (rest fs[m] (List.getElem?_eq_getElem hml)).2 k (by rw [← hl] at hkl; simpa using hkl) nk hk

/-! ### 3. `make_distinct` -/

/-- For every choice function (= every iteration order of intervaltree's sets): if `make_distinct` returns, every
pair of distinct items is either disjoint or both definitive (`sepB`), and items only advanced along their
trajectories.  The other possible outcomes are the documented `ValueError` (an item is still not finite after one
tightening) and `badChoice` (the given function is not an admissible iteration-order choice). -/
theorem make_distinct_post (ch : Choice) {σ : St} {fs : List Int} (hv : ValidSt σ fs) :
    match makeDistinct ch σ with
    | .ok σ' _ => Adv σ σ' ∧ ValidSt σ' fs ∧
        ∀ (i j : Nat) (a b : Item), i ≠ j → σ'[i]? = some a → σ'[j]? = some b → sepB a.cur b.cur = true
    | .valueError σ' => Adv σ σ'
    | .badChoice => True
    | .fuel => False
    | .hang => False
    | .unsupported => False := by
  rcases makeDistinct_spec ch hv with ⟨σ', r, e, hr, hs⟩ | ⟨σ', e, hr⟩ | e
  · rw [e]; exact ⟨hr.adv, hr.valid hv, fun i j a b hij ha hb => hs i j hij a b ha hb⟩
  · rw [e]; exact hr.adv
  · rw [e]; trivial

/-- `make_distinct` terminates on converging items whatever the iteration order: the fuel given to the main loop
(`total σ + |tree| + 1`) is never exhausted and the inner loop never spins. -/
theorem make_distinct_terminates (ch : Choice) {σ : St} {fs : List Int} (hv : ValidSt σ fs) :
    (match makeDistinct ch σ with | .fuel => False | .hang => False | _ => True) := by
  have := make_distinct_post ch hv
  split at this <;> simp_all

-- [audit] non-vacuity: with an admissible choice (the default `firstMax`) the `.ok` branch of `make_distinct_post` is
-- really taken on `exσ` (one round that tightens items 0 and 1 twice each, then the early `break` on a definitive
-- biggest interval): result ranges `[2,2], [1,1], [2,2]`.
example : (match makeDistinct (choiceOf []) exσ with
    | .ok σ' r => some (σ'.map (·.cur), r) | _ => none) =
    some ([⟨.fin 2, .fin 2⟩, ⟨.fin 1, .fin 1⟩, ⟨.fin 2, .fin 2⟩], 1) := by decide +kernel

-- [audit] the `badChoice => True` branch is real: a choice function that does not name a maximal-size interval is NOT
-- replaced by an admissible one, the run is abandoned and the theorem says nothing about it ("for every ADMISSIBLE
-- choice"; the driver turns `badChoice` into a stream error).
example : (match makeDistinct (fun _ _ _ => 2) exσ with | .badChoice => true | _ => false) = true := by decide +kernel

/-! ### 4. `sort` -/

/-- `bounds.sort` with the heap treated as ANY comparison-based priority queue.
Hypothesis (the contract a heap must meet; discharged dynamically for every recorded run, and the statement the C16
heap theorems have to provide for a comparator that is merely *consistent* with a total preorder): the transcript
`evs` of comparator calls and pops is accepted by `sortReplay`, i.e. every recorded comparison result is what
`BoundedComparator.__lt__` answers in the current state, and every popped item is connected to every other item still
in the heap by a chain of performed comparisons (`justified`).
Conclusion: the output is non-decreasing in final cost and, together with what is still in the heap, a permutation of
the input; in particular a full drain is a sorted permutation.  Only `lt_consistent` is used — the comparator is
neither transitive nor antisymmetric on ties.
FULL STATEMENT (not proved here, needs the C16 heap model): for the Fibonacci heap of `graphtage.fibonacci`, the
transcript produced by `push`-all / `pop`-until-empty is always accepted by `sortReplay`, is finite, and empties
the heap. -/
theorem sort_sorted_partial {σ : St} {fs : List Int} (hv : ValidSt σ fs) (evs : List SortEv) (s' : SortSt)
    (h : sortReplay evs (sortInit σ) = .ok s') :
    Adv σ s'.σ ∧ s'.out.Pairwise (LE fs) ∧ (s'.out ++ s'.remaining).Perm (List.range σ.length) ∧
    (s'.remaining = [] → s'.out.Perm (List.range σ.length)) := by
  obtain ⟨r, inv⟩ := sortReplay_spec fs evs (sortInit σ) s' (sortInit_inv hv) h
  have hp := inv.perm
  rw [← hv.1] at hp
  refine ⟨r.adv, inv.sorted, hp, ?_⟩
  intro he; rw [he] at hp; simpa using hp

/-- number of `heap.pop()` events of a transcript -/
def pops : List SortEv → Nat
  | [] => 0
  | .pop _ :: evs => pops evs + 1
  | .cmp .. :: evs => pops evs

theorem sortReplay_pops : ∀ (evs : List SortEv) (s s' : SortSt), sortReplay evs s = .ok s' →
    s'.out.length = s.out.length + pops evs
  | [], s, s', h => by simp only [sortReplay, Except.ok.injEq] at h; subst h; simp [pops]
  | .cmp i j idlt res :: evs, s, s', h => by
    simp only [sortReplay] at h
    split at h
    · cases h
    · split at h
      · cases h
      · have := sortReplay_pops evs _ s' h
        simpa [pops] using this
  | .pop m :: evs, s, s', h => by
    simp only [sortReplay] at h
    split at h
    · cases h
    · split at h
      · cases h
      · have := sortReplay_pops evs _ s' h
        simp only [List.length_append, List.length_cons, List.length_nil] at this
        simp only [pops]; omega

/-- TERMINATION of `bounds.sort`, as far as it does not depend on the heap's own loops (same heap contract as
`sort_sorted_partial`: the transcript of comparator calls and pops is accepted by `sortReplay`).
  (1) every comparator call is a terminating computation (`lt_terminates`: `ltLoop` is total, no fuel) and the calls of
      the WHOLE sort together perform at most `total σ` successful tightenings: the potential never grows;
  (2) the drain loop `while heap: yield heap.pop()` runs exactly `pops evs` times, never more than `n` times, and after
      `n` pops the heap is empty — then the output is the sorted permutation of `sort_sorted_partial`.
NOT proved (part of the assumed heap contract): that the Fibonacci heap performs finitely many comparator calls per
`push` / `pop` (C16's heap functions are total, but they take a pure comparator and are not connected to this model). -/
theorem sort_terminates_partial {σ : St} {fs : List Int} (hv : ValidSt σ fs) (evs : List SortEv) (s' : SortSt)
    (h : sortReplay evs (sortInit σ) = .ok s') :
    total s'.σ ≤ total σ ∧
    s'.out.length = pops evs ∧ pops evs + s'.remaining.length = σ.length ∧
    (pops evs = σ.length → s'.remaining = [] ∧ s'.out.Perm (List.range σ.length) ∧ s'.out.Pairwise (LE fs)) := by
  obtain ⟨r, inv⟩ := sortReplay_spec fs evs (sortInit σ) s' (sortInit_inv hv) h
  have hp := sortReplay_pops evs _ s' h
  simp only [sortInit, List.length_nil, Nat.zero_add] at hp
  have hl := inv.perm.length_eq
  rw [← hv.1] at hl
  simp only [List.length_append, List.length_range] at hl
  have hr : total s'.σ ≤ total σ := r.total_le
  refine ⟨hr, hp, by omega, fun hn => ?_⟩
  have he : s'.remaining = [] := List.eq_nil_of_length_eq_zero (by omega)
  exact ⟨he, (sort_sorted_partial hv evs s' h).2.2.2 he, inv.sorted⟩

-- non-vacuity: on `exσ` (total trajectory length 4) the recorded full drain has 3 pops = 3 items
example : pops [.cmp 1 0 false true, .cmp 2 1 false false, .pop 1, .cmp 0 2 true true, .pop 0, .pop 2] = exσ.length := by
  decide

-- [audit] non-vacuity: a transcript with real tightening inside the comparisons (item 1 is tightened twice by the first
-- comparison) and a full drain is accepted by `sortReplay` on `exσ`; output `[1, 0, 2]` (final costs 1, 2, 2).
example : (match sortReplay [.cmp 1 0 false true, .cmp 2 1 false false, .pop 1, .cmp 0 2 true true, .pop 0, .pop 2]
      (sortInit exσ) with | .ok s => some (s.out, s.remaining) | .error _ => none) = some ([1, 0, 2], []) := by
  decide +kernel

-- [audit] how weak the hypothesis is on its own: the EMPTY transcript is accepted for every collection, and then the
-- theorem only says `[]` is sorted.  That the heap performs any comparison, pops anything, or ever empties
-- (`remaining = []`) is part of the assumed contract, not of the conclusion.
example (σ : St) : sortReplay [] (sortInit σ) = .ok (sortInit σ) := rfl

-- [audit] a pop that is not certified by performed comparisons is rejected, i.e. "every pop is a minimum w.r.t. the
-- comparisons made" is ASSUMED by `sort_sorted_partial` (only `lt_consistent` + transitivity remain to be proved).
example : (match sortReplay [.pop 0] (sortInit exσ) with | .error .unjustified => true | _ => false) = true := by
  decide +kernel

/-! ### 5. `IterativeTighteningSearch` -/

/-- `tighten_bounds()` terminates from EVERY state of the search (any heaps, any stale keys, any oracle for the
heap's choice among equal keys): the fuel `measure + 1` given to its `while True` loop is never exhausted, the
measure (tightenings still possible + unprocessed input) never grows, and an answer `True` means it strictly
decreased. -/
theorem search_tighten_terminates (sel : Sel) (s : SS) :
    ∃ b s', tightenBounds sel s = some (b, s') ∧ s'.measure ≤ s.measure ∧ (b = true → s'.measure < s.measure) :=
  tightenBounds_spec sel s

/-- `search()` terminates: `while self.tighten_bounds(): pass` makes at most `measure + 1` calls. -/
theorem search_terminates (sel : Sel) (s : SS) : ∃ s', search sel s = some s' ∧ s'.measure ≤ s.measure := by
  obtain ⟨s', e, l⟩ := searchLoop_spec sel (s.measure + 2) s (by omega)
  exact ⟨s', e, l⟩

/-- the default `initial_bounds` (`Range(-∞, ∞)`): all graphtage ever passes -/
def defaultIb : Range := ⟨.negInf, .posInf⟩

/-- **`search()` returns an item of minimum final cost** — for every collection of converging items (every
tightening schedule) and EVERY heap oracle `sel` (the heap's choice among nodes of equal key; an inadmissible answer
is replaced by the first minimal node), with the default `initial_bounds`.  `None` exactly for the empty collection.
(`search_terminates` gives the existence of the final state `s'`.) -/
theorem search_returns_min {σ : St} {fs : List Int} (hv : ValidSt σ fs) (sel : Sel) {s' : SS}
    (h : search sel (SS.init σ defaultIb) = some s') :
    ValidSt s'.σ fs ∧ (σ = [] → bestMatch s' = none) ∧
    (σ ≠ [] → ∃ m nm, bestMatch s' = some m ∧ fs[m]? = some nm ∧ ∀ (k : Nat) (nk : Int), fs[k]? = some nk → nm ≤ nk) := by
  obtain ⟨inv, hun, hu⟩ := search_result hv sel h
  have hlen : s'.σ.length = σ.length := by rw [inv.1.valid.1, hv.1]
  refine ⟨inv.1.valid, ?_, ?_⟩
  · intro h0
    exact bestMatch_none_of_nil inv (List.eq_nil_of_length_eq_zero (by rw [hlen, h0]; rfl)) hu
  · intro hne
    have hne' : s'.σ ≠ [] := by
      intro h0; apply hne
      exact List.eq_nil_of_length_eq_zero (by rw [← hlen, h0]; rfl)
    obtain ⟨m, nm, _, hb, hn, ⟨n2, hn2, hmin⟩, _, _⟩ := final_facts inv hun hu hne'
    rw [hn] at hn2; cases hn2
    exact ⟨m.item, nm, hb, hn, hmin⟩

example : ValidSt exσ [2, 1, 2] ∧ exσ ≠ [] := ⟨exσ_valid, by simp [exσ]⟩

-- [audit] non-vacuity of `h : search … = some s'` on `exσ`, with the constant oracle `none` (always inadmissible, so
-- every answer is replaced by the first minimal node and `bad` is set): item 1 (final cost 1) wins, `bounds() = [1,1]`.
example : (search (fun _ => none) (SS.init exσ defaultIb)).map (fun s => (bestMatch s, boundsOf s, goalTest s, s.bad)) =
    some (some 1, Range.point 1, true, true) := by decide +kernel

/-- **when `search()` ends, `bounds()` is the single value = the minimum final cost**, and `goal_test()` holds. -/
theorem search_bounds_point {σ : St} {fs : List Int} (hv : ValidSt σ fs) (sel : Sel) {s' : SS}
    (h : search sel (SS.init σ defaultIb) = some s') (hne : σ ≠ []) :
    ∃ nm, (∃ m : Nat, fs[m]? = some nm) ∧ (∀ (k : Nat) (nk : Int), fs[k]? = some nk → nm ≤ nk) ∧
      boundsOf s' = Range.point nm ∧ goalTest s' = true := by
  obtain ⟨inv, hun, hu⟩ := search_result hv sel h
  have hlen : s'.σ.length = σ.length := by rw [inv.1.valid.1, hv.1]
  have hne' : s'.σ ≠ [] := by
    intro h0; apply hne
    exact List.eq_nil_of_length_eq_zero (by rw [← hlen, h0]; rfl)
  obtain ⟨m, nm, _, _, hn, ⟨n2, hn2, hmin⟩, hb, hg⟩ := final_facts inv hun hu hne'
  rw [hn] at hn2; cases hn2
  exact ⟨nm, ⟨m.item, hn⟩, hmin, hb, hg⟩

/-- **`bounds()` is sound at every step**: in every state `s` reached from the initial state by calls of
`tighten_bounds()` (in particular in every state `search()` passes through),
(1) `bounds()` contains the minimum final cost, and (2) the next call never widens it; hence (3) it lies inside
every earlier value.  Every collection, every schedule, every heap oracle; default `initial_bounds`. -/
theorem search_bounds_sound {σ : St} {fs : List Int} (hv : ValidSt σ fs) (sel : Sel) {s : SS}
    (hr : SReach sel (SS.init σ defaultIb) s) :
    (∀ (j : Nat) (n : Int), fs[j]? = some n → (∀ (k : Nat) (nk : Int), fs[k]? = some nk → n ≤ nk) →
        (boundsOf s).contains (Range.point n) = true) ∧
    (∀ (b : Bool) (s' : SS), tightenBounds sel s = some (b, s') → (boundsOf s).contains (boundsOf s') = true) ∧
    (boundsOf (SS.init σ defaultIb)).contains (boundsOf s) = true := by
  have inv0 : SInv fs (SS.init σ defaultIb) := SInv.init hv
  have inv := hr.inv inv0
  exact ⟨fun j n hj hmin => bounds_contains inv hj hmin, fun b s' ht => tightenBounds_mono sel inv ht, hr.mono inv0⟩

/-- the states `search()` goes through are of that kind: its final state is reached by `tighten_bounds()` calls -/
theorem search_reach (sel : Sel) (s s' : SS) (h : search sel s = some s') : SReach sel s s' :=
  searchLoop_reach sel _ s s' h

-- [audit] not visible in the statements above but proved inside `SInv` (`SCore.unsup`): on converging items with the
-- default `initial_bounds` the model never takes one of its `unsupported` shortcut branches (e.g. "an untightened item
-- refused to tighten", where Python would walk on through the heap) — in every state `tighten_bounds()` reaches.
example {σ : St} {fs : List Int} (hv : ValidSt σ fs) (sel : Sel) {s : SS}
    (hr : SReach sel (SS.init σ defaultIb) s) : s.unsupported = false :=
  (hr.inv (SInv.init hv)).1.unsup

/-! The restriction to the default `initial_bounds` is necessary: with an explicit `initial_bounds` that contains the
optimum the real code — and this model, see `corpus/bounded/ib_*.json` — loses optimal items and widens `bounds()`.
The three witnesses, evaluated on the model (kernel `decide`): -/

/-- item `[2,5] → [5,5]`, `initial_bounds = Range(0, 5)`: `search()` returns `None` -/
example : (search (fun _ => none)
    (SS.init [⟨⟨.fin 2, .fin 5⟩, [⟨.fin 5, .fin 5⟩], 0, 0⟩] ⟨.fin 0, .fin 5⟩)).map bestMatch = some none := by decide

/-- items `[4,5] → [5,5]` and `[6,6]`, `initial_bounds = Range(1, 5)`: the item of cost 6 wins, `bounds() = [6,6]` -/
example : (search (fun _ => none)
    (SS.init [⟨⟨.fin 4, .fin 5⟩, [⟨.fin 5, .fin 5⟩], 0, 0⟩, ⟨⟨.fin 6, .fin 6⟩, [], 0, 0⟩] ⟨.fin 1, .fin 5⟩)).map
      (fun s => (bestMatch s, boundsOf s)) = some (some 1, ⟨.fin 6, .fin 6⟩) := by decide

/-- item `[1,6] → [1,5] → [1,4] → [1,3] → [1,1]`, `initial_bounds = Range(0, 2)`: the first call moves `bounds()`
from `[0,2]` to `[1,3]` -/
example : (tightenBounds (fun _ => none)
    (SS.init [⟨⟨.fin 1, .fin 6⟩, [⟨.fin 1, .fin 5⟩, ⟨.fin 1, .fin 4⟩, ⟨.fin 1, .fin 3⟩, ⟨.fin 1, .fin 1⟩], 0, 0⟩]
      ⟨.fin 0, .fin 2⟩)).map (fun p => boundsOf p.2) = some ⟨.fin 1, .fin 3⟩ := by decide

end GtModel.C17

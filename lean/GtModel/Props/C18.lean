/-
  C18 — Python objects are converted faithfully and cycles never hang.
  Theorems about the L6 model (`GtModel.Builder`).
-/
import GtModel.Model.Builder
import GtModel.Proofs.BuilderMachine
import GtModel.Proofs.BuilderToObj
import GtModel.Proofs.BuilderValue
import GtModel.Proofs.BuilderCopy
import GtModel.Proofs.BuilderEq

namespace GtModel.C18
open GtModel.Builder

/-- the options with cycle checking switched off -/
def noCheck (o : Opts) : Opts := { o with chk := false }

/-- **Acyclic stores**: a rank that strictly decreases along every edge the builder can walk
(`expand`); equivalent to well-foundedness of reachability on a finite store. -/
def Ranked (b : BKind) (s : Store) (rk : Ref → Nat) : Prop :=
  ∀ x c, c ∈ expand b s x → rk c < rk x

theorem mappingFrom_noCheck (py : Bool) (o : Opts) (items : List (Tree × Tree)) :
    mappingFrom py (noCheck o) items = mappingFrom py o items := by
  cases o; rfl

theorem buildNode_noCheck (b : BKind) (o : Opts) (s : Store) (r : Ref) (cs : List Tree) :
    buildNode b (noCheck o) s r cs = buildNode b o s r cs := by
  unfold buildNode
  cases s.cell? r with
  | none => rfl
  | some cell =>
    simp only
    cases resolve (builders b) cell.mro with
    | none =>
      cases b
      · rfl
      · simp only [pyobjDefaultBuild, mappingFrom_noCheck]
    | some m =>
      simp only [applyBuilder, buildDict, mappingFrom_noCheck]
      rfl

theorem scans_noCheck (b : BKind) (o : Opts) (s : Store) (gcs : List Ref) : scans b (noCheck o) s gcs = false := by
  simp [scans, noCheck]

/-! ### acyclic stores: sharing is not a cycle, building terminates -/

theorem dfsChildren_noCheck_congr (b : BKind) (o : Opts) (s : Store) (r1 r2 : Ref → Except Err Tree)
    (path : List Ref) : ∀ cs : List Ref, (∀ c ∈ cs, path.contains c = false ∧ r1 c = r2 c) →
      dfsChildren b o s r1 path cs = dfsChildren b (noCheck o) s r2 path cs := by
  intro cs
  induction cs with
  | nil => intro _; simp [dfsChildren]
  | cons c cs ih =>
    intro h
    obtain ⟨hc, hr⟩ := h c (by simp)
    rw [dfsChildren_cons, dfsChildren_cons, if_neg (by rw [hc]; simp), if_neg (by simp [scans_noCheck]), hr,
      ih (fun c' hc' => h c' (by simp [hc']))]

/-- On an acyclic store the cycle scan never fires: with cycle checking on (ignoring or not), the traversal
computes exactly what it computes with cycle checking off — for DAGs with arbitrary sharing. -/
theorem sharing_not_cycle_dfs {b : BKind} {s : Store} {rk : Ref → Nat} (o : Opts) (hr : Ranked b s rk) :
    ∀ (d : Nat) (x : Ref) (path : List Ref), (∀ p ∈ path, rk x < rk p) →
      dfs b o s d path x = dfs b (noCheck o) s d path x := by
  intro d
  induction d with
  | zero => intro x path _; simp [dfs]
  | succ d ih =>
    intro x path hp
    simp only [dfs]
    have hch : dfsChildren b o s (dfs b o s d (x :: path)) (x :: path) (expand b s x)
        = dfsChildren b (noCheck o) s (dfs b (noCheck o) s d (x :: path)) (x :: path) (expand b s x) := by
      apply dfsChildren_noCheck_congr
      intro c hc
      have hlt := hr x c hc
      constructor
      · simp only [List.contains_cons, Bool.or_eq_false_iff]
        constructor
        · simp only [beq_eq_false_iff_ne]
          intro h; subst h; omega
        · rw [List.contains_eq_mem]
          simp only [decide_eq_false_iff_not]
          intro hm
          have := hp c hm
          omega
      · apply ih
        intro p hpm
        simp only [List.mem_cons] at hpm
        cases hpm with
        | inl h => subst h; exact hlt
        | inr h => have := hp p h; omega
    rw [hch]
    simp only [buildNode_noCheck]

theorem dfsChildren_noCheck_error (b : BKind) (o : Opts) (s : Store) (recur : Ref → Except Err Tree)
    (path : List Ref) : ∀ (cs : List Ref) (e : Err),
      dfsChildren b (noCheck o) s recur path cs = .error e → ∃ c ∈ cs, recur c = .error e := by
  intro cs
  induction cs with
  | nil => intro e h; simp [dfsChildren, pure, Except.pure] at h
  | cons c cs ih =>
    intro e h
    rw [dfsChildren_cons, if_neg (by simp [scans_noCheck])] at h
    simp only [bind, Except.bind] at h
    cases hc : recur c with
    | error e' =>
      rw [hc] at h
      simp at h
      subst h
      exact ⟨c, by simp, hc⟩
    | ok t =>
      rw [hc] at h
      cases hrest : dfsChildren b (noCheck o) s recur path cs with
      | ok ts => rw [hrest] at h; simp at h
      | error e' =>
        rw [hrest] at h
        simp at h
        subst h
        obtain ⟨c', hm, he⟩ := ih e' hrest
        exact ⟨c', by simp [hm], he⟩

theorem liftB_ne {α} (x : Except BErr α) : liftB x ≠ .error .cycle ∧ liftB x ≠ .error .outOfFuel := by
  cases x <;> simp [liftB]

/-- without the scan, the cycle error cannot arise (it is raised nowhere else) -/
theorem dfs_noCheck_ne_cycle (b : BKind) (o : Opts) (s : Store) :
    ∀ (d : Nat) (x : Ref) (path : List Ref), dfs b (noCheck o) s d path x ≠ .error .cycle := by
  intro d
  induction d with
  | zero => intro x path; simp [dfs, throw, throwThe, MonadExceptOf.throw]
  | succ d ih =>
    intro x path h
    simp only [dfs, bind, Except.bind] at h
    cases hc : dfsChildren b (noCheck o) s (dfs b (noCheck o) s d (x :: path)) (x :: path) (expand b s x) with
    | error e =>
      rw [hc] at h
      simp at h
      subst h
      obtain ⟨c, _, he⟩ := dfsChildren_noCheck_error b o s _ _ _ _ hc
      exact ih c (x :: path) he
    | ok ts =>
      rw [hc] at h
      exact (liftB_ne _).1 h

/-- depth `rk x + 1` suffices on an acyclic store -/
theorem dfs_noCheck_fuel {b : BKind} {s : Store} {rk : Ref → Nat} (o : Opts) (hr : Ranked b s rk) :
    ∀ (d : Nat) (x : Ref) (path : List Ref), rk x < d → dfs b (noCheck o) s d path x ≠ .error .outOfFuel := by
  intro d
  induction d with
  | zero => intro x path h; omega
  | succ d ih =>
    intro x path hd h
    simp only [dfs, bind, Except.bind] at h
    cases hc : dfsChildren b (noCheck o) s (dfs b (noCheck o) s d (x :: path)) (x :: path) (expand b s x) with
    | error e =>
      rw [hc] at h
      simp at h
      subst h
      obtain ⟨c, hm, he⟩ := dfsChildren_noCheck_error b o s _ _ _ _ hc
      have := hr x c hm
      exact ih c (x :: path) (by omega) he
    | ok ts =>
      rw [hc] at h
      exact (liftB_ne _).2 h

/-- **build_terminates / sharing_not_cycle** (machine level).  For an acyclic store — a DAG with any amount of
sharing — and EVERY option combination and builder, `Builder.build_tree` (the work-stack machine) terminates:
there is a step count from which on it returns a fixed result `r`; `r` is not the cycle error, and `r` is
exactly the result obtained with cycle checking switched off (so no placeholder is inserted either). -/
theorem build_terminates {b : BKind} {s : Store} {rk : Ref → Nat} (o : Opts) (hr : Ranked b s rk) (root : Ref) :
    ∃ (fuel : Nat) (r : Except Err Tree),
      (∀ fuel' ≥ fuel, buildTree b o s fuel' root = r) ∧
      (∀ fuel' ≥ fuel, buildTree b (noCheck o) s fuel' root = r) ∧
      r ≠ .error .outOfFuel ∧ r ≠ .error .cycle := by
  have heq := sharing_not_cycle_dfs o hr (rk root + 1) root [] (by simp)
  have hf := dfs_noCheck_fuel o hr (rk root + 1) root [] (by omega)
  have hcy := dfs_noCheck_ne_cycle b o s (rk root + 1) root []
  obtain ⟨f1, h1⟩ := buildTree_of_dfs b o s (rk root + 1) root _ heq hf
  obtain ⟨f2, h2⟩ := buildTree_of_dfs b (noCheck o) s (rk root + 1) root _ rfl hf
  exact ⟨max f1 f2, _, fun f hfu => h1 f (by omega), fun f hfu => h2 f (by omega), hf, hcy⟩

/-- **sharing_not_cycle**: a DAG with shared sub-objects never yields the cycle error. -/
theorem sharing_not_cycle {b : BKind} {s : Store} {rk : Ref → Nat} (o : Opts) (hr : Ranked b s rk) (root : Ref)
    (fuel : Nat) : buildTree b o s fuel root ≠ .error .cycle := by
  intro h
  obtain ⟨f, r, h1, _, _, hc⟩ := build_terminates o hr root
  -- the machine is deterministic: once it has failed it stays failed
  have hmono : ∀ k, buildTree b o s (fuel + k) root = .error .cycle := by
    intro k
    unfold buildTree at h ⊢
    rw [runSteps_add]
    cases hst : runSteps b o s fuel (.cont (initWork b s root)) with
    | cont w => rw [hst] at h; simp at h
    | done t => rw [hst] at h; simp at h
    | fail e =>
      rw [hst] at h
      simp at h
      subst h
      simp [runSteps_fail]
  have := h1 (fuel + f) (by omega)
  rw [hmono f] at this
  exact hc this.symm

/-! ### cyclic stores -/

/-- `c` is one of the objects the builder walks into from `p` -/
def childRel (b : BKind) (s : Store) (c p : Ref) : Prop := c ∈ expand b s p

/-- `y` is reachable from `x` along builder edges -/
inductive Reach (b : BKind) (s : Store) : Ref → Ref → Prop where
  | refl (x : Ref) : Reach b s x x
  | step {p c y : Ref} : c ∈ expand b s p → Reach b s c y → Reach b s p y

theorem Reach.tail {b : BKind} {s : Store} {x y z : Ref} (h : Reach b s x y) (hz : z ∈ expand b s y) :
    Reach b s x z := by
  induction h with
  | refl x => exact .step hz (.refl z)
  | step hc _ ih => exact .step hc (ih hz)

/-- `y` lies on a cycle -/
def OnCycle (b : BKind) (s : Store) (y : Ref) : Prop := ∃ c, c ∈ expand b s y ∧ Reach b s c y

/-- a cycle is reachable from `root` -/
def HasCycle (b : BKind) (s : Store) (root : Ref) : Prop := ∃ y, Reach b s root y ∧ OnCycle b s y

theorem acc_of_reach {b : BKind} {s : Store} {x y : Ref} (h : Reach b s x y) (ha : Acc (childRel b s) x) :
    Acc (childRel b s) y := by
  induction h with
  | refl x => exact ha
  | step hc _ ih => exact ih (ha.inv hc)

theorem not_onCycle_of_acc {b : BKind} {s : Store} {y : Ref} (ha : Acc (childRel b s) y) : ¬ OnCycle b s y := by
  induction ha with
  | intro y _ ih =>
    rintro ⟨c, hc, hr⟩
    apply ih c hc
    cases hr with
    | refl => exact ⟨_, hc, .refl _⟩
    | step hc' hr' => exact ⟨_, hc', hr'.tail hc⟩

theorem not_acc_of_hasCycle {b : BKind} {s : Store} {root : Ref} (h : HasCycle b s root) :
    ¬ Acc (childRel b s) root := by
  obtain ⟨y, hr, hy⟩ := h
  exact fun ha => not_onCycle_of_acc (acc_of_reach hr ha) hy

theorem dfsChildren_ok_recur (b : BKind) (o : Opts) (s : Store) (hign : o.ign = false)
    (recur : Ref → Except Err Tree) (path : List Ref) : ∀ (cs : List Ref) (ts : List Tree),
      dfsChildren b o s recur path cs = .ok ts → ∀ c ∈ cs, ∃ t, recur c = .ok t := by
  intro cs
  induction cs with
  | nil => intro ts _ c hc; simp at hc
  | cons c cs ih =>
    intro ts h
    rw [dfsChildren_cons] at h
    by_cases hs : (scans b o s (expand b s c) && path.contains c) = true
    · rw [if_pos hs, if_neg (by simp [hign])] at h
      simp [bind, Except.bind] at h
    · rw [if_neg hs] at h
      simp only [bind, Except.bind] at h
      cases hc : recur c with
      | error e => rw [hc] at h; simp at h
      | ok t =>
        rw [hc] at h
        cases hrest : dfsChildren b o s recur path cs with
        | error e => rw [hrest] at h; simp at h
        | ok ts' =>
          intro c' hc'
          simp only [List.mem_cons] at hc'
          cases hc' with
          | inl h' => subst h'; exact ⟨t, hc⟩
          | inr h' => exact ih ts' hrest c' h'

/-- If the traversal succeeds without the option to insert placeholders, everything below `x` is
well-founded: a successful result is never produced "silently" on a cyclic structure. -/
theorem dfs_ok_acc (b : BKind) (o : Opts) (s : Store) (hign : o.ign = false) :
    ∀ (d : Nat) (x : Ref) (path : List Ref) (t : Tree), dfs b o s d path x = .ok t → Acc (childRel b s) x := by
  intro d
  induction d with
  | zero => intro x path t h; simp [dfs, throw, throwThe, MonadExceptOf.throw] at h
  | succ d ih =>
    intro x path t h
    simp only [dfs, bind, Except.bind] at h
    cases hc : dfsChildren b o s (dfs b o s d (x :: path)) (x :: path) (expand b s x) with
    | error e => rw [hc] at h; simp at h
    | ok ts =>
      constructor
      intro c hcx
      obtain ⟨t', ht'⟩ := dfsChildren_ok_recur b o s hign _ _ _ _ hc c hcx
      exact ih c (x :: path) t' ht'

/-- **cycle_detected, traversal level.**  With `ignore_cycles` off, a structure from which a cycle is reachable
is never converted successfully, whatever the depth budget. -/
theorem cycle_never_ok (b : BKind) (o : Opts) (s : Store) (hign : o.ign = false) (root : Ref)
    (hc : HasCycle b s root) (d : Nat) (path : List Ref) (t : Tree) : dfs b o s d path root ≠ .ok t :=
  fun h => not_acc_of_hasCycle hc (dfs_ok_acc b o s hign d root path t h)


theorem expand_istr (b : BKind) (s : Store) (str : String) : expand b s (.istr str) = [] := by
  unfold expand expand? Store.cell?
  simp only
  split
  · simp [iterPayload]
  · simp
  · simp
  · cases b
    · simp only; split <;> simp
    · simp only; split
      · simp
      · split <;> simp

theorem expand_oob (b : BKind) (s : Store) (i : Nat) (h : s.length ≤ i) : expand b s (.obj i) = [] := by
  unfold expand expand? Store.cell?
  have : s[i]? = none := by simp [h]
  simp [this]

theorem pigeon (n : Nat) : ∀ (l : List Ref), l.Nodup → (∀ p ∈ l, ∃ i, i < n ∧ p = .obj i) → l.length ≤ n := by
  induction n with
  | zero =>
    intro l _ h
    cases l with
    | nil => simp
    | cons a l => obtain ⟨i, hi, _⟩ := h a (by simp); omega
  | succ n ih =>
    intro l hn h
    have h1 : (l.erase (.obj n)).length ≤ n := by
      apply ih
      · exact hn.erase _
      · intro p hp
        have hp' := (List.Nodup.mem_erase_iff hn).1 hp
        obtain ⟨i, hi, rfl⟩ := h p hp'.2
        refine ⟨i, ?_, rfl⟩
        have : i ≠ n := fun h' => hp'.1 (by rw [h'])
        omega
    have h2 : l.length ≤ (l.erase (.obj n)).length + 1 := by
      by_cases hm : Ref.obj n ∈ l
      · rw [List.length_erase_of_mem hm]; omega
      · rw [List.erase_of_not_mem hm]; omega
    omega

theorem dfsChildren_error (b : BKind) (o : Opts) (s : Store) (recur : Ref → Except Err Tree) (path : List Ref) :
    ∀ (cs : List Ref) (e : Err), dfsChildren b o s recur path cs = .error e →
      e = .cycle ∨ ∃ c ∈ cs, (scans b o s (expand b s c) && path.contains c) = false ∧ recur c = .error e := by
  intro cs
  induction cs with
  | nil => intro e h; simp [dfsChildren, pure, Except.pure] at h
  | cons c cs ih =>
    intro e h
    rw [dfsChildren_cons] at h
    have tailcase : ∀ e', dfsChildren b o s recur path cs = .error e' →
        e' = .cycle ∨ ∃ c' ∈ c :: cs, (scans b o s (expand b s c') && path.contains c') = false ∧ recur c' = .error e' := by
      intro e' h'
      cases ih e' h' with
      | inl h => exact .inl h
      | inr h => obtain ⟨c', hm, hh⟩ := h; exact .inr ⟨c', by simp [hm], hh⟩
    by_cases hs : (scans b o s (expand b s c) && path.contains c) = true
    · rw [if_pos hs] at h
      by_cases hi : o.ign = true
      · rw [if_pos hi] at h
        simp only [bind, Except.bind] at h
        cases hrest : dfsChildren b o s recur path cs with
        | ok ts => rw [hrest] at h; simp at h
        | error e' =>
          rw [hrest] at h
          simp at h
          subst h
          exact tailcase e' hrest
      · rw [if_neg hi] at h
        simp [bind, Except.bind] at h
        exact .inl h.symm
    · rw [if_neg hs] at h
      simp only [bind, Except.bind] at h
      cases hc : recur c with
      | error e' =>
        rw [hc] at h
        simp at h
        subst h
        exact .inr ⟨c, by simp, by simpa using hs, hc⟩
      | ok t =>
        rw [hc] at h
        cases hrest : dfsChildren b o s recur path cs with
        | ok ts => rw [hrest] at h; simp at h
        | error e' =>
          rw [hrest] at h
          simp at h
          subst h
          exact tailcase e' hrest

theorem dfs_leafy (b : BKind) (o : Opts) (s : Store) (d : Nat) (path : List Ref) (c : Ref)
    (hc : expand b s c = []) : dfs b o s (d + 1) path c ≠ .error .outOfFuel := by
  simp only [dfs, hc, dfsChildren, bind, Except.bind, pure, Except.pure]
  exact (liftB_ne _).2

theorem scans_false_leaves (b : BKind) (o : Opts) (s : Store) (hchk : o.chk = true) (gcs : List Ref)
    (h : scans b o s gcs = false) : ∀ g ∈ gcs, expand b s g = [] := by
  intro g hg
  simp only [scans, hchk, Bool.and_true, Bool.and_eq_false_iff, Bool.not_eq_eq_eq_not,
    Bool.not_false] at h
  cases h with
  | inl h => simp [List.isEmpty_iff] at h; subst h; simp at hg
  | inr h =>
    simp only [allLeaves, List.all_eq_true] at h
    simpa [List.isEmpty_iff] using h g hg

/-- with cycle checking on, the ancestor path is simple, so depth `|store| + 2` always suffices -/
theorem dfs_chk_fuel (b : BKind) (o : Opts) (s : Store) (hchk : o.chk = true) :
    ∀ (d : Nat) (x : Ref) (path : List Ref), path.Nodup → (∀ p ∈ path, ∃ i, i < s.length ∧ p = .obj i) →
      (x ∉ path ∨ ∀ g ∈ expand b s x, expand b s g = []) → s.length - path.length + 2 ≤ d →
      dfs b o s d path x ≠ .error .outOfFuel := by
  intro d
  induction d with
  | zero => intro x path _ _ _ h; omega
  | succ d ih =>
    intro x path hnd hval hx hd h
    simp only [dfs, bind, Except.bind] at h
    cases hc : dfsChildren b o s (dfs b o s d (x :: path)) (x :: path) (expand b s x) with
    | ok ts => rw [hc] at h; exact (liftB_ne _).2 h
    | error e =>
      rw [hc] at h
      simp at h
      subst h
      cases dfsChildren_error b o s _ _ _ _ hc with
      | inl h => simp at h
      | inr h =>
        obtain ⟨c, hcm, hcond, herr⟩ := h
        by_cases hleaf : ∀ g ∈ expand b s x, expand b s g = []
        · -- the children of x are leaves: one more level suffices
          have hd1 : ∃ d', d = d' + 1 := ⟨d - 1, by omega⟩
          obtain ⟨d', rfl⟩ := hd1
          exact dfs_leafy b o s d' (x :: path) c (hleaf c hcm) herr
        · have hxp : x ∉ path := by
            cases hx with
            | inl h => exact h
            | inr h => exact absurd h hleaf
          -- x has children, hence is a valid stored object
          have hxval : ∃ i, i < s.length ∧ x = .obj i := by
            cases x with
            | istr str => rw [expand_istr] at hcm; simp at hcm
            | obj i =>
              refine ⟨i, ?_, rfl⟩
              apply Nat.lt_of_not_le
              intro hle
              rw [expand_oob b s i hle] at hcm
              simp at hcm
          have hnd' : (x :: path).Nodup := List.nodup_cons.2 ⟨hxp, hnd⟩
          have hval' : ∀ p ∈ x :: path, ∃ i, i < s.length ∧ p = .obj i := by
            intro p hp
            simp only [List.mem_cons] at hp
            cases hp with
            | inl h => subst h; exact hxval
            | inr h => exact hval p h
          have hlen := pigeon s.length (x :: path) hnd' hval'
          simp only [List.length_cons] at hlen
          refine ih c (x :: path) hnd' hval' ?_ (by simp only [List.length_cons]; omega) herr
          simp only [Bool.and_eq_false_iff] at hcond
          cases hcond with
          | inl h => exact .inr (scans_false_leaves b o s hchk _ h)
          | inr h =>
            left
            intro hm
            have : (x :: path).contains c = true := by simpa using hm
            rw [this] at h
            simp at h

theorem dfsChildren_error_ign (b : BKind) (o : Opts) (s : Store) (hign : o.ign = true)
    (recur : Ref → Except Err Tree) (path : List Ref) :
    ∀ (cs : List Ref) (e : Err), dfsChildren b o s recur path cs = .error e → ∃ c ∈ cs, recur c = .error e := by
  intro cs
  induction cs with
  | nil => intro e h; simp [dfsChildren, pure, Except.pure] at h
  | cons c cs ih =>
    intro e h
    rw [dfsChildren_cons] at h
    have tailcase : ∀ e', dfsChildren b o s recur path cs = .error e' → ∃ c' ∈ c :: cs, recur c' = .error e' := by
      intro e' h'
      obtain ⟨c', hm, hh⟩ := ih e' h'
      exact ⟨c', by simp [hm], hh⟩
    by_cases hs : (scans b o s (expand b s c) && path.contains c) = true
    · rw [if_pos hs, if_pos hign] at h
      simp only [bind, Except.bind] at h
      cases hrest : dfsChildren b o s recur path cs with
      | ok ts => rw [hrest] at h; simp at h
      | error e' =>
        rw [hrest] at h
        simp at h
        subst h
        exact tailcase e' hrest
    · rw [if_neg hs] at h
      simp only [bind, Except.bind] at h
      cases hc : recur c with
      | error e' =>
        rw [hc] at h
        simp at h
        subst h
        exact ⟨c, by simp, hc⟩
      | ok t =>
        rw [hc] at h
        cases hrest : dfsChildren b o s recur path cs with
        | ok ts => rw [hrest] at h; simp at h
        | error e' =>
          rw [hrest] at h
          simp at h
          subst h
          exact tailcase e' hrest

/-- with `ignore_cycles` the cycle error is never raised -/
theorem dfs_ign_ne_cycle (b : BKind) (o : Opts) (s : Store) (hign : o.ign = true) :
    ∀ (d : Nat) (x : Ref) (path : List Ref), dfs b o s d path x ≠ .error .cycle := by
  intro d
  induction d with
  | zero => intro x path; simp [dfs, throw, throwThe, MonadExceptOf.throw]
  | succ d ih =>
    intro x path h
    simp only [dfs, bind, Except.bind] at h
    cases hc : dfsChildren b o s (dfs b o s d (x :: path)) (x :: path) (expand b s x) with
    | error e =>
      rw [hc] at h
      simp at h
      subst h
      obtain ⟨c, _, he⟩ := dfsChildren_error_ign b o s hign _ _ _ _ hc
      exact ih c (x :: path) he
    | ok ts =>
      rw [hc] at h
      exact (liftB_ne _).1 h

/-- **cycles never hang.**  With cycle checking on, `Builder.build_tree` terminates on EVERY store (cyclic or
not, any builder, any other option): from some step count on it returns a fixed result. -/
theorem build_terminates_checked (b : BKind) (o : Opts) (s : Store) (hchk : o.chk = true) (root : Ref) :
    ∃ (fuel : Nat) (r : Except Err Tree),
      (∀ fuel' ≥ fuel, buildTree b o s fuel' root = r) ∧ r = dfs b o s (s.length + 2) [] root ∧
      r ≠ .error .outOfFuel := by
  have hf := dfs_chk_fuel b o s hchk (s.length + 2) root [] (by simp) (by simp) (by simp) (by simp)
  obtain ⟨f, h⟩ := buildTree_of_dfs b o s (s.length + 2) root _ rfl hf
  exact ⟨f, _, h, rfl, hf⟩

/-- **cycle_detected.**  Cycle checking on, `ignore_cycles` off, a cycle reachable from the root: the machine
terminates with an exception — the cycle error, unless a per-type builder raised first (e.g. `BasicBuilder` on an
object of an unsupported class, met before the cycle is closed). -/
theorem cycle_detected (b : BKind) (o : Opts) (s : Store) (hchk : o.chk = true) (hign : o.ign = false)
    (root : Ref) (hc : HasCycle b s root) :
    ∃ (fuel : Nat) (e : Err), (∀ fuel' ≥ fuel, buildTree b o s fuel' root = .error e) ∧
      (e = .cycle ∨ ∃ be, e = .build be) := by
  obtain ⟨f, r, h1, h2, h3⟩ := build_terminates_checked b o s hchk root
  cases r with
  | ok t => exact absurd h2.symm (cycle_never_ok b o s hign root hc _ _ t)
  | error e =>
    refine ⟨f, e, h1, ?_⟩
    cases e with
    | cycle => exact .inl rfl
    | outOfFuel => exact absurd rfl h3
    | build be => exact .inr ⟨be, rfl⟩

/-- **cycle_placeholder (partial).**  Cycle checking on, `ignore_cycles` on: the machine terminates on every
store and never with the cycle error.
MISSING for the full statement (`… and, if a cycle is reachable, the returned tree contains a CyclicReference`):
that the placeholder created by the traversal survives the per-type builders (it can only vanish when two
dictionary keys compare equal and one entry is dropped); the stream monitor checks it on every cyclic case. -/
theorem cycle_placeholder_partial (b : BKind) (o : Opts) (s : Store) (hchk : o.chk = true) (hign : o.ign = true)
    (root : Ref) :
    ∃ (fuel : Nat) (r : Except Err Tree), (∀ fuel' ≥ fuel, buildTree b o s fuel' root = r) ∧
      r ≠ .error .outOfFuel ∧ r ≠ .error .cycle := by
  obtain ⟨f, r, h1, h2, h3⟩ := build_terminates_checked b o s hchk root
  exact ⟨f, r, h1, h3, by rw [h2]; exact dfs_ign_ne_cycle b o s hign _ _ _⟩

/-! ### `json.build_tree`: value round trip -/

def numOrStr (mro : List String) : Bool :=
  mro.contains "bool" || mro.contains "int" || mro.contains "float" || mro.contains "str"

/-- scalars of `json.build_tree`'s domain: bool / int / float / str (and subclasses), or None -/
def JsonScalar (mro : List String) (s : Scalar) : Prop :=
  numOrStr mro = true ∨ (mro.contains "bytes" = false ∧ s = Scalar.none)

def JsonKey : PyVal → Prop
  | .scalar mro _ => numOrStr mro = true
  | _ => False

def keyEqc : PyVal → String
  | .scalar _ s => s.eqc
  | _ => ""

/-- Python guarantees this for every dict: no two keys are `==` -/
def DistinctKeys (kvs : List (PyVal × PyVal)) : Prop := (kvs.map (fun p => keyEqc p.1)).Pairwise (· ≠ ·)

mutual
/-- the documented domain of `json.build_tree`: lists / tuples / dicts with scalar (non-None, non-bytes) keys /
bool, int, float, str, None -/
def JsonLike : PyVal → Prop
  | .scalar mro s => JsonScalar mro s
  | .list _ xs => JsonLikeList xs
  | .tuple _ xs => JsonLikeList xs
  | .dict _ kvs => JsonLikePairs kvs ∧ DistinctKeys kvs
  | .set _ _ => False
  | .custom _ _ _ => False
def JsonLikeList : List PyVal → Prop
  | [] => True
  | x :: xs => JsonLike x ∧ JsonLikeList xs
def JsonLikePairs : List (PyVal × PyVal) → Prop
  | [] => True
  | (k, v) :: rest => JsonKey k ∧ JsonLike v ∧ JsonLikePairs rest
end

theorem jsonLeaf_numOrStr (mro : List String) (s : Scalar) (h : numOrStr mro = true) :
    ∃ c, c ≠ LeafCls.null ∧ jsonLeaf mro (some s) = some (.ok (.leaf c s true)) := by
  unfold jsonLeaf
  simp only [numOrStr, List.contains_eq_mem, Bool.or_eq_true, decide_eq_true_eq] at h ⊢
  by_cases h1 : "bool" ∈ mro
  · exact ⟨.bool, by simp, by simp [h1, pure, Except.pure]⟩
  by_cases h2 : "int" ∈ mro
  · exact ⟨.integer, by simp, by simp [h1, h2, pure, Except.pure]⟩
  by_cases h3 : "float" ∈ mro
  · exact ⟨.float, by simp, by simp [h1, h2, h3, pure, Except.pure]⟩
  by_cases h4 : "str" ∈ mro
  · exact ⟨.string, by simp, by simp [h1, h2, h3, h4, pure, Except.pure]⟩
  simp [h1, h2, h3, h4] at h

mutual
theorem json_toObj (o : Opts) : ∀ (v : PyVal), JsonLike v → ∀ t, jsonBuild o v = .ok t →
    ∃ x, toObj t = .ok x ∧ ObjEquiv x (normalise v)
  | .scalar mro s, h, t, hb => by
    simp only [JsonLike, JsonScalar] at h
    simp only [jsonBuild] at hb
    cases h with
    | inl h =>
      obtain ⟨c, _, hl⟩ := jsonLeaf_numOrStr mro s h
      rw [hl] at hb
      simp at hb
      subst hb
      exact ⟨.scalar s, by simp [toObj, pure, Except.pure], by simp [normalise]; exact .scalar s⟩
    | inr h =>
      obtain ⟨hby, rfl⟩ := h
      refine ⟨.scalar Scalar.none, ?_, by simp [normalise]; exact .scalar _⟩
      cases hl : jsonLeaf mro (some Scalar.none) with
      | some r =>
        -- a numeric / str class wrapping None cannot occur, but the result is a leaf of the same scalar anyway
        rw [hl] at hb
        simp only at hb
        unfold jsonLeaf at hl
        simp only [hby, Scalar.none] at hl
        split at hl
        · simp at hl; rw [← hl] at hb; simp [pure, Except.pure] at hb; subst hb; simp [toObj, pure, Except.pure, Scalar.none]
        · split at hl
          · simp at hl; rw [← hl] at hb; simp [pure, Except.pure] at hb; subst hb; simp [toObj, pure, Except.pure, Scalar.none]
          · split at hl
            · simp at hl; rw [← hl] at hb; simp [pure, Except.pure] at hb; subst hb; simp [toObj, pure, Except.pure, Scalar.none]
            · split at hl
              · simp at hl; rw [← hl] at hb; simp [pure, Except.pure] at hb; subst hb; simp [toObj, pure, Except.pure, Scalar.none]
              · simp at hl
      | none =>
        rw [hl] at hb
        simp [Scalar.none, pure, Except.pure] at hb
        subst hb
        simp [toObj, pure, Except.pure, Scalar.none]
  | .list mro xs, h, t, hb => by
    simp only [JsonLike] at h
    simp only [jsonBuild, bind, Except.bind] at hb
    cases hl : jsonBuildList o xs with
    | error e => rw [hl] at hb; simp at hb
    | ok ts =>
      rw [hl] at hb
      simp [pure, Except.pure] at hb
      subst hb
      obtain ⟨rs, h1, h2⟩ := json_toObj_list o xs h ts hl
      refine ⟨.list rs, ?_, by simp only [normalise]; exact .list h2⟩
      simp [toObj, (toObjList_forall2 ts rs).2 h1, bind, Except.bind, pure, Except.pure]
  | .tuple mro xs, h, t, hb => by
    simp only [JsonLike] at h
    simp only [jsonBuild, bind, Except.bind] at hb
    cases hl : jsonBuildList o xs with
    | error e => rw [hl] at hb; simp at hb
    | ok ts =>
      rw [hl] at hb
      simp [pure, Except.pure] at hb
      subst hb
      obtain ⟨rs, h1, h2⟩ := json_toObj_list o xs h ts hl
      refine ⟨.list rs, ?_, by simp only [normalise]; exact .list h2⟩
      simp [toObj, (toObjList_forall2 ts rs).2 h1, bind, Except.bind, pure, Except.pure]
  | .dict mro kvs, h, t, hb => by
    simp only [JsonLike] at h
    simp only [jsonBuild, bind, Except.bind] at hb
    cases hl : jsonBuildPairs o kvs with
    | error e => rw [hl] at hb; simp at hb
    | ok items =>
      rw [hl] at hb
      simp only at hb
      obtain ⟨hk, hm, rs, h1, h2⟩ := json_toObj_pairs o kvs h.1 items hl
      have hg : GoodItems items := ⟨hk, by rw [hm]; exact h.2⟩
      rw [dictOf_good hg] at hb
      obtain ⟨rs', hr', hp⟩ := mappingFrom_toObj false o items rs hg h1 t hb
      exact ⟨.dict rs', hr', by simp only [normalise]; exact ObjEquiv.dict_perm hp h2⟩
  | .set _ _, h, _, _ => by simp [JsonLike] at h
  | .custom _ _ _, h, _, _ => by simp [JsonLike] at h
theorem json_toObj_list (o : Opts) : ∀ (xs : List PyVal), JsonLikeList xs → ∀ ts, jsonBuildList o xs = .ok ts →
    ∃ rs, Forall2 (fun t x => toObj t = .ok x) ts rs ∧ ObjEquivList rs (normaliseList xs)
  | [], _, ts, hb => by
    simp [jsonBuildList, pure, Except.pure] at hb
    subst hb
    exact ⟨[], .nil, by simp only [normaliseList]; exact .nil⟩
  | x :: xs, h, ts, hb => by
    simp only [JsonLikeList] at h
    simp only [jsonBuildList, bind, Except.bind] at hb
    cases h1 : jsonBuild o x with
    | error e => rw [h1] at hb; simp at hb
    | ok t =>
      rw [h1] at hb
      cases h2 : jsonBuildList o xs with
      | error e => rw [h2] at hb; simp at hb
      | ok ts' =>
        rw [h2] at hb
        simp [pure, Except.pure] at hb
        subst hb
        obtain ⟨y, hy1, hy2⟩ := json_toObj o x h.1 t h1
        obtain ⟨rs, hr1, hr2⟩ := json_toObj_list o xs h.2 ts' h2
        exact ⟨y :: rs, .cons hy1 hr1, by simp only [normaliseList]; exact .cons hy2 hr2⟩
theorem json_toObj_pairs (o : Opts) : ∀ (kvs : List (PyVal × PyVal)), JsonLikePairs kvs →
    ∀ items, jsonBuildPairs o kvs = .ok items →
      (∀ it ∈ items, IsKeyLeaf it.1) ∧ items.map (fun it => leafEqc it.1) = kvs.map (fun p => keyEqc p.1) ∧
      ∃ rs, Forall2 ItemObj items rs ∧ ObjEquivPairs rs (normalisePairs kvs)
  | [], _, items, hb => by
    simp [jsonBuildPairs, pure, Except.pure] at hb
    subst hb
    exact ⟨by simp, by simp, [], .nil, by simp only [normalisePairs]; exact .nil⟩
  | (k, v) :: rest, h, items, hb => by
    simp only [JsonLikePairs] at h
    obtain ⟨hk, hv, hrest⟩ := h
    cases k with
    | scalar mro s =>
      simp only [JsonKey] at hk
      obtain ⟨c, hc, hl⟩ := jsonLeaf_numOrStr mro s hk
      simp only [jsonBuildPairs, PyVal.mro, PyVal.scalar?, hl, bind, Except.bind] at hb
      cases h1 : jsonBuild o v with
      | error e => rw [h1] at hb; simp at hb
      | ok vt =>
        rw [h1] at hb
        cases h2 : jsonBuildPairs o rest with
        | error e => rw [h2] at hb; simp at hb
        | ok items' =>
          rw [h2] at hb
          simp [pure, Except.pure] at hb
          subst hb
          obtain ⟨y, hy1, hy2⟩ := json_toObj o v hv vt h1
          obtain ⟨hk', hm', rs, hr1, hr2⟩ := json_toObj_pairs o rest hrest items' h2
          refine ⟨?_, ?_, (.scalar s, y) :: rs, .cons ⟨by simp [toObj, pure, Except.pure], hy1⟩ hr1, ?_⟩
          · intro it hit
            simp only [List.mem_cons] at hit
            cases hit with
            | inl h => subst h; exact ⟨c, s, true, rfl, fun h => absurd h hc⟩
            | inr h => exact hk' it h
          · simp only [List.map_cons, hm']; rfl
          · simp only [normalisePairs, normalise]; exact .cons (.scalar s) hy2 hr2
    | list _ _ => simp [JsonKey] at hk
    | tuple _ _ => simp [JsonKey] at hk
    | dict _ _ => simp [JsonKey] at hk
    | set _ _ => simp [JsonKey] at hk
    | custom _ _ _ => simp [JsonKey] at hk
end

theorem jsonLeaf_nobytes (mro : List String) (s : Scalar) (hb : mro.contains "bytes" = false) :
    ∀ r, jsonLeaf mro (some s) = some r → ∃ c, r = .ok (.leaf c s true) := by
  intro r h
  unfold jsonLeaf at h
  simp only [hb] at h
  split at h
  · simp [pure, Except.pure] at h; exact ⟨_, h.symm⟩
  · split at h
    · simp [pure, Except.pure] at h; exact ⟨_, h.symm⟩
    · split at h
      · simp [pure, Except.pure] at h; exact ⟨_, h.symm⟩
      · split at h
        · simp [pure, Except.pure] at h; exact ⟨_, h.symm⟩
        · simp at h

mutual
theorem json_build_ok (o : Opts) : ∀ (v : PyVal), JsonLike v → ∃ t, jsonBuild o v = .ok t
  | .scalar mro s, h => by
    simp only [JsonLike, JsonScalar] at h
    simp only [jsonBuild]
    cases h with
    | inl h =>
      obtain ⟨c, _, hl⟩ := jsonLeaf_numOrStr mro s h
      rw [hl]; exact ⟨_, rfl⟩
    | inr h =>
      obtain ⟨hby, rfl⟩ := h
      cases hl : jsonLeaf mro (some Scalar.none) with
      | some r =>
        obtain ⟨c, rfl⟩ := jsonLeaf_nobytes mro _ hby r hl
        exact ⟨_, rfl⟩
      | none => simp [Scalar.none, pure, Except.pure]
  | .list mro xs, h => by
    simp only [JsonLike] at h
    obtain ⟨ts, hts⟩ := json_build_ok_list o xs h
    simp only [jsonBuild, bind, Except.bind, hts]
    exact ⟨_, rfl⟩
  | .tuple mro xs, h => by
    simp only [JsonLike] at h
    obtain ⟨ts, hts⟩ := json_build_ok_list o xs h
    simp only [jsonBuild, bind, Except.bind, hts]
    exact ⟨_, rfl⟩
  | .dict mro kvs, h => by
    simp only [JsonLike] at h
    obtain ⟨items, hitems⟩ := json_build_ok_pairs o kvs h.1
    obtain ⟨hk, hm, _⟩ := json_toObj_pairs o kvs h.1 items hitems
    have hg : GoodItems items := ⟨hk, by rw [hm]; exact h.2⟩
    simp only [jsonBuild, bind, Except.bind, hitems, dictOf_good hg]
    exact mappingFrom_ok false o items hg
  | .set _ _, h => by simp [JsonLike] at h
  | .custom _ _ _, h => by simp [JsonLike] at h
theorem json_build_ok_list (o : Opts) : ∀ (xs : List PyVal), JsonLikeList xs → ∃ ts, jsonBuildList o xs = .ok ts
  | [], _ => ⟨_, rfl⟩
  | x :: xs, h => by
    simp only [JsonLikeList] at h
    obtain ⟨t, ht⟩ := json_build_ok o x h.1
    obtain ⟨ts, hts⟩ := json_build_ok_list o xs h.2
    simp only [jsonBuildList, bind, Except.bind, ht, hts]
    exact ⟨_, rfl⟩
theorem json_build_ok_pairs (o : Opts) : ∀ (kvs : List (PyVal × PyVal)), JsonLikePairs kvs →
    ∃ items, jsonBuildPairs o kvs = .ok items
  | [], _ => ⟨_, rfl⟩
  | (k, v) :: rest, h => by
    simp only [JsonLikePairs] at h
    obtain ⟨hk, hv, hrest⟩ := h
    cases k with
    | scalar mro s =>
      simp only [JsonKey] at hk
      obtain ⟨c, hc, hl⟩ := jsonLeaf_numOrStr mro s hk
      obtain ⟨t, ht⟩ := json_build_ok o v hv
      obtain ⟨items, hitems⟩ := json_build_ok_pairs o rest hrest
      simp only [jsonBuildPairs, PyVal.mro, PyVal.scalar?, hl, bind, Except.bind, ht, hitems]
      exact ⟨_, rfl⟩
    | list _ _ => simp [JsonKey] at hk
    | tuple _ _ => simp [JsonKey] at hk
    | dict _ _ => simp [JsonKey] at hk
    | set _ _ => simp [JsonKey] at hk
    | custom _ _ _ => simp [JsonKey] at hk
end

/-- **to_obj_build (json.build_tree).**  For every value of `json.build_tree`'s domain and every option
combination the build succeeds and the plain value of the tree equals the original (tuples as lists), up to the
order of dictionary entries. -/
theorem to_obj_build_json (o : Opts) (v : PyVal) (h : JsonLike v) :
    ∃ t x, jsonBuild o v = .ok t ∧ toObj t = .ok x ∧ ObjEquiv x (normalise v) := by
  obtain ⟨t, ht⟩ := json_build_ok o v h
  obtain ⟨x, hx, he⟩ := json_toObj o v h t ht
  exact ⟨t, x, ht, hx, he⟩

def stdBuilderName : Kind → String
  | .int => "build_int" | .bool => "build_bool" | .float => "build_float"
  | .str => "build_str" | .bytes => "build_str" | .none => "build_none"

/-- the class of a stored object is dispatched the standard way: what the generated `@builder` / `@expander`
tables give for the built-in types (and their subclasses) -/
def StdCell (b : BKind) (c : Cell) : Prop :=
  match c.val with
  | .scalar sc => resolve (expanders b) c.mro = none ∧ resolve (builders b) c.mro = some (stdBuilderName sc.kind)
  | .list _ => resolve (expanders b) c.mro = some "expand_list" ∧ resolve (builders b) c.mro = some "build_list"
  | .tuple _ => resolve (expanders b) c.mro = some "expand_list" ∧ resolve (builders b) c.mro = some "build_list"
  | .set _ => resolve (expanders b) c.mro = some "expand_list" ∧ resolve (builders b) c.mro = some "build_set"
  | .dict _ => resolve (expanders b) c.mro = some "expand_dict" ∧ resolve (builders b) c.mro = some "build_dict"
  | .custom _ _ => True

def StdStore (b : BKind) (s : Store) : Prop := ∀ (i : Nat) (c : Cell), s[i]? = some c → StdCell b c

/-- sequential evaluation of the children without the scan -/
theorem dfsChildren_noCheck_nil (b : BKind) (o : Opts) (s : Store) (recur : Ref → Except Err Tree) (path : List Ref) :
    dfsChildren b (noCheck o) s recur path [] = .ok [] := rfl

theorem dfsChildren_noCheck_cons (b : BKind) (o : Opts) (s : Store) (recur : Ref → Except Err Tree) (path : List Ref)
    (c : Ref) (cs : List Ref) :
    dfsChildren b (noCheck o) s recur path (c :: cs) =
      (recur c >>= fun t => dfsChildren b (noCheck o) s recur path cs >>= fun ts => .ok (t :: ts)) := by
  rw [dfsChildren_cons, if_neg (by simp [scans_noCheck])]

theorem liftB_bind {α β} (x : Except BErr α) (f : α → Except BErr β) :
    liftB (x >>= f) = (liftB x >>= fun a => liftB (f a)) := by
  cases x <;> rfl

/-- children that are stored objects, each of which the recursion builds like `buildVal` -/
theorem dfsChildren_items (b : BKind) (o : Opts) (s : Store) (d : Nat) (recur : Ref → Except Err Tree) (path : List Ref) :
    ∀ (items : List Nat) (vs : List PyVal), optMapM (fun i => unfold s d (.obj i)) items = some vs →
      (∀ i ∈ items, ∀ v, unfold s d (.obj i) = some v → recur (.obj i) = liftB (buildVal o v)) →
      dfsChildren b (noCheck o) s recur path (items.map .obj) = liftB (buildValList o vs) := by
  intro items
  induction items with
  | nil => intro vs h _; simp [optMapM] at h; subst h; rfl
  | cons i items ih =>
    intro vs h hrec
    simp only [optMapM] at h
    cases hu : unfold s d (.obj i) with
    | none => rw [hu] at h; simp at h
    | some v =>
      rw [hu] at h
      cases hm : optMapM (fun i => unfold s d (.obj i)) items with
      | none => rw [hm] at h; simp at h
      | some vs' =>
        rw [hm] at h
        simp at h
        subst h
        simp only [List.map_cons]
        rw [dfsChildren_noCheck_cons, hrec i (by simp) v hu, ih vs' hm (fun j hj => hrec j (by simp [hj]))]
        simp only [buildValList]
        cases buildVal o v <;> cases buildValList o vs' <;> rfl

theorem dfsChildren_append (b : BKind) (o : Opts) (s : Store) (recur : Ref → Except Err Tree) (path : List Ref) :
    ∀ (as bs : List Ref), dfsChildren b (noCheck o) s recur path (as ++ bs) =
      (dfsChildren b (noCheck o) s recur path as >>= fun ta =>
        dfsChildren b (noCheck o) s recur path bs >>= fun tb => .ok (ta ++ tb)) := by
  intro as
  induction as with
  | nil =>
    intro bs
    simp only [List.nil_append, dfsChildren_noCheck_nil, bind, Except.bind]
    cases dfsChildren b (noCheck o) s recur path bs <;> rfl
  | cons a as ih =>
    intro bs
    simp only [List.cons_append, dfsChildren_noCheck_cons, ih, bind, Except.bind]
    cases recur a with
    | error e => rfl
    | ok t =>
      simp only
      cases dfsChildren b (noCheck o) s recur path as with
      | error e => rfl
      | ok ta =>
        simp only
        cases dfsChildren b (noCheck o) s recur path bs <;> rfl

def unfoldPair (s : Store) (d : Nat) : Nat × Nat → Option (PyVal × PyVal) :=
  pairOpt (fun i => unfold s d (.obj i))

theorem dfsChildren_keys (b : BKind) (o : Opts) (s : Store) (d : Nat) (recur : Ref → Except Err Tree) (path : List Ref) :
    ∀ (items : List (Nat × Nat)) (kvs : List (PyVal × PyVal)), optMapM (unfoldPair s d) items = some kvs →
      (∀ p ∈ items, ∀ v, unfold s d (.obj p.1) = some v → recur (.obj p.1) = liftB (buildVal o v)) →
      dfsChildren b (noCheck o) s recur path (items.map (fun p => .obj p.1)) = liftB (buildValKeys o kvs) := by
  intro items
  induction items with
  | nil => intro kvs h _; simp [optMapM] at h; subst h; rfl
  | cons p items ih =>
    intro kvs h hrec
    simp only [optMapM] at h
    cases hu : unfoldPair s d p with
    | none => rw [hu] at h; simp at h
    | some kv =>
      rw [hu] at h
      cases hm : optMapM (unfoldPair s d) items with
      | none => rw [hm] at h; simp at h
      | some kvs' =>
        rw [hm] at h
        simp at h
        subst h
        obtain ⟨k, v⟩ := kv
        have hk : unfold s d (.obj p.1) = some k := by
          unfold unfoldPair pairOpt at hu; simp only at hu
          cases h1 : unfold s d (.obj p.1) <;> cases h2 : unfold s d (.obj p.2) <;> rw [h1, h2] at hu <;> simp at hu
          rw [hu.1]
        simp only [List.map_cons]
        rw [dfsChildren_noCheck_cons, hrec p (by simp) k hk, ih kvs' hm (fun j hj => hrec j (by simp [hj]))]
        simp only [buildValKeys]
        cases buildVal o k <;> cases buildValKeys o kvs' <;> rfl

theorem dfsChildren_vals (b : BKind) (o : Opts) (s : Store) (d : Nat) (recur : Ref → Except Err Tree) (path : List Ref) :
    ∀ (items : List (Nat × Nat)) (kvs : List (PyVal × PyVal)), optMapM (unfoldPair s d) items = some kvs →
      (∀ p ∈ items, ∀ v, unfold s d (.obj p.2) = some v → recur (.obj p.2) = liftB (buildVal o v)) →
      dfsChildren b (noCheck o) s recur path (items.map (fun p => .obj p.2)) = liftB (buildValVals o kvs) := by
  intro items
  induction items with
  | nil => intro kvs h _; simp [optMapM] at h; subst h; rfl
  | cons p items ih =>
    intro kvs h hrec
    simp only [optMapM] at h
    cases hu : unfoldPair s d p with
    | none => rw [hu] at h; simp at h
    | some kv =>
      rw [hu] at h
      cases hm : optMapM (unfoldPair s d) items with
      | none => rw [hm] at h; simp at h
      | some kvs' =>
        rw [hm] at h
        simp at h
        subst h
        obtain ⟨k, v⟩ := kv
        have hv : unfold s d (.obj p.2) = some v := by
          unfold unfoldPair pairOpt at hu; simp only at hu
          cases h1 : unfold s d (.obj p.1) <;> cases h2 : unfold s d (.obj p.2) <;> rw [h1, h2] at hu <;> simp at hu
          rw [hu.2]
        simp only [List.map_cons]
        rw [dfsChildren_noCheck_cons, hrec p (by simp) v hv, ih kvs' hm (fun j hj => hrec j (by simp [hj]))]
        simp only [buildValVals]
        cases buildVal o v <;> cases buildValVals o kvs' <;> rfl

theorem optMapM_mem {α β} (f : α → Option β) : ∀ (l : List α) (r : List β), optMapM f l = some r →
    ∀ a ∈ l, ∀ y, f a = some y → y ∈ r := by
  intro l
  induction l with
  | nil => intro r _ a ha; simp at ha
  | cons x l ih =>
    intro r h a ha y hy
    simp only [optMapM] at h
    cases hx : f x with
    | none => rw [hx] at h; simp at h
    | some x' =>
      rw [hx] at h
      cases hm : optMapM f l with
      | none => rw [hm] at h; simp at h
      | some r' =>
        rw [hm] at h
        simp at h
        subst h
        simp only [List.mem_cons] at ha
        cases ha with
        | inl h' => subst h'; rw [hx] at hy; simp at hy; simp [hy]
        | inr h' => simp [ih r' hm a h' y hy]

theorem optMapM_some_mem {α β} (f : α → Option β) : ∀ (l : List α) (r : List β), optMapM f l = some r →
    ∀ a ∈ l, ∃ y ∈ r, f a = some y := by
  intro l
  induction l with
  | nil => intro r _ a ha; simp at ha
  | cons x l ih =>
    intro r h a ha
    simp only [optMapM] at h
    cases hx : f x with
    | none => rw [hx] at h; simp at h
    | some x' =>
      rw [hx] at h
      cases hm : optMapM f l with
      | none => rw [hm] at h; simp at h
      | some r' =>
        rw [hm] at h
        simp at h
        subst h
        simp only [List.mem_cons] at ha
        cases ha with
        | inl h' => subst h'; exact ⟨x', by simp, hx⟩
        | inr h' => obtain ⟨y, hy, hf⟩ := ih r' hm a h'; exact ⟨y, by simp [hy], hf⟩

theorem plainList_mem : ∀ (xs : List PyVal), PlainList xs → ∀ x ∈ xs, Plain x := by
  intro xs
  induction xs with
  | nil => intro _ x hx; simp at hx
  | cons y xs ih =>
    intro h x hx
    simp only [PlainList] at h
    simp only [List.mem_cons] at hx
    cases hx with
    | inl h' => subst h'; exact h.1
    | inr h' => exact ih h.2 x h'

theorem isScalarVal_plain {x : PyVal} (h : IsScalarVal x) : Plain x := by
  cases x with
  | scalar m s => simp only [IsScalarVal] at h; simp only [Plain]; exact h
  | list _ _ => simp [IsScalarVal] at h
  | tuple _ _ => simp [IsScalarVal] at h
  | dict _ _ => simp [IsScalarVal] at h
  | set _ _ => simp [IsScalarVal] at h
  | custom _ _ _ => simp [IsScalarVal] at h

theorem plainPairs_mem : ∀ (kvs : List (PyVal × PyVal)), PlainPairs kvs → ∀ p ∈ kvs, Plain p.1 ∧ Plain p.2 := by
  intro kvs
  induction kvs with
  | nil => intro _ p hp; simp at hp
  | cons q kvs ih =>
    intro h p hp
    obtain ⟨k, v⟩ := q
    simp only [PlainPairs] at h
    simp only [List.mem_cons] at hp
    cases hp with
    | inl h' => subst h'; exact ⟨isScalarVal_plain h.1, h.2.1⟩
    | inr h' => exact ih h.2.2 p h'

theorem applyBuilder_scalar (o : Opts) (sc : Scalar) :
    applyBuilder (stdBuilderName sc.kind) o (.scalar sc) [] = .ok (scalarLeaf sc) := by
  unfold scalarLeaf
  cases hk : sc.kind <;> simp [stdBuilderName, applyBuilder, leafOf, hk, pure, Except.pure]

theorem expand_of_none (b : BKind) (s : Store) (i : Nat) (cell : Cell) (hc : s[i]? = some cell)
    (he : resolve (expanders b) cell.mro = none) (hb : (resolve (builders b) cell.mro).isSome = true) :
    expand b s (.obj i) = [] := by
  unfold expand expand? Store.cell?
  simp only [hc, he]
  cases b
  · simp only; cases Gen.basicDefaultExpander <;> simp
  · simp only [hb]; cases Gen.pyobjOwnDefaults <;> simp

theorem expand_of_list (b : BKind) (s : Store) (i : Nat) (cell : Cell) (hc : s[i]? = some cell)
    (he : resolve (expanders b) cell.mro = some "expand_list") (items : List Ref) (hi : iterPayload cell.val = some items) :
    expand b s (.obj i) = items := by
  unfold expand expand? Store.cell?
  simp [hc, he, hi]

theorem buildNode_of (b : BKind) (o : Opts) (s : Store) (i : Nat) (cell : Cell) (hc : s[i]? = some cell) (m : String)
    (hb : resolve (builders b) cell.mro = some m) (ts : List Tree) :
    buildNode b o s (.obj i) ts = applyBuilder m o cell.val ts := by
  unfold buildNode Store.cell?
  simp [hc, hb]

/-- **the store-level traversal equals the value-level builder** on the unfolding of the store (sharing is
simply unfolded), for standard classes -/
theorem dfs_eq_buildVal (b : BKind) (o : Opts) (s : Store) (hstd : StdStore b s) :
    ∀ (d i : Nat) (v : PyVal) (path : List Ref), unfold s d (.obj i) = some v → Plain v →
      dfs b (noCheck o) s d path (.obj i) = liftB (buildVal o v) := by
  intro d
  induction d with
  | zero => intro i v path h; simp [unfold] at h
  | succ d ih =>
    intro i v path hu hp
    simp only [unfold, Store.cell?] at hu
    cases hc : s[i]? with
    | none => rw [hc] at hu; simp at hu
    | some cell =>
      rw [hc] at hu
      simp only at hu
      have hcell := hstd i cell hc
      unfold StdCell at hcell
      simp only [dfs, buildNode_noCheck]
      cases hval : cell.val with
      | scalar sc =>
        rw [hval] at hu hcell
        simp only at hu hcell
        simp at hu
        subst hu
        rw [expand_of_none b s i cell hc hcell.1 (by rw [hcell.2]; rfl), dfsChildren_noCheck_nil]
        simp only [bind, Except.bind]
        rw [buildNode_of b o s i cell hc _ hcell.2, hval, applyBuilder_scalar]
        rfl
      | list items =>
        rw [hval] at hu hcell
        simp only at hu hcell
        cases hm : optMapM (fun i => unfold s d (.obj i)) items with
        | none => rw [hm] at hu; simp at hu
        | some vs =>
          rw [hm] at hu
          simp at hu
          subst hu
          simp only [Plain] at hp
          rw [expand_of_list b s i cell hc hcell.1 (items.map .obj) (by rw [hval]; rfl),
            dfsChildren_items b o s d _ _ items vs hm
              (fun j hj w hw => ih j w _ hw (plainList_mem vs hp w (optMapM_mem _ items vs hm j hj w hw)))]
          simp only [buildVal, liftB_bind]
          cases buildValList o vs with
          | error e => rfl
          | ok ts =>
            simp only [liftB, bind, Except.bind]
            rw [buildNode_of b o s i cell hc _ hcell.2]
            rfl
      | tuple items =>
        rw [hval] at hu hcell
        simp only at hu hcell
        cases hm : optMapM (fun i => unfold s d (.obj i)) items with
        | none => rw [hm] at hu; simp at hu
        | some vs =>
          rw [hm] at hu
          simp at hu
          subst hu
          simp only [Plain] at hp
          rw [expand_of_list b s i cell hc hcell.1 (items.map .obj) (by rw [hval]; rfl),
            dfsChildren_items b o s d _ _ items vs hm
              (fun j hj w hw => ih j w _ hw (plainList_mem vs hp w (optMapM_mem _ items vs hm j hj w hw)))]
          simp only [buildVal, liftB_bind]
          cases buildValList o vs with
          | error e => rfl
          | ok ts =>
            simp only [liftB, bind, Except.bind]
            rw [buildNode_of b o s i cell hc _ hcell.2]
            rfl
      | set items =>
        rw [hval] at hu hcell
        simp only at hu hcell
        cases hm : optMapM (fun i => unfold s d (.obj i)) items with
        | none => rw [hm] at hu; simp at hu
        | some vs =>
          rw [hm] at hu
          simp at hu
          subst hu
          simp only [Plain] at hp
          rw [expand_of_list b s i cell hc hcell.1 (items.map .obj) (by rw [hval]; rfl),
            dfsChildren_items b o s d _ _ items vs hm
              (fun j hj w hw => ih j w _ hw (isScalarVal_plain (hp.1 w (optMapM_mem _ items vs hm j hj w hw))))]
          simp only [buildVal, liftB_bind]
          cases buildValList o vs with
          | error e => rfl
          | ok ts =>
            simp only [liftB, bind, Except.bind]
            rw [buildNode_of b o s i cell hc _ hcell.2]
            rfl
      | dict items =>
        rw [hval] at hu hcell
        simp only at hu hcell
        cases hm : optMapM (unfoldPair s d) items with
        | none =>
          have : optMapM (pairOpt (fun i => unfold s d (.obj i))) items = none := hm
          rw [this] at hu; simp at hu
        | some kvs =>
          have hm' : optMapM (pairOpt (fun i => unfold s d (.obj i))) items = some kvs := hm
          rw [hm'] at hu
          simp at hu
          subst hu
          simp only [Plain] at hp
          have hexp : expand b s (.obj i) = items.map (fun p => .obj p.1) ++ items.map (fun p => .obj p.2) := by
            unfold expand expand? Store.cell?
            simp [hc, hcell.1, hval]
          have hpair : ∀ p ∈ items, ∀ kv, unfoldPair s d p = some kv →
              unfold s d (.obj p.1) = some kv.1 ∧ unfold s d (.obj p.2) = some kv.2 := by
            intro p _ kv hkv
            unfold unfoldPair pairOpt at hkv; simp only at hkv
            cases h1 : unfold s d (.obj p.1) <;> cases h2 : unfold s d (.obj p.2) <;> rw [h1, h2] at hkv <;> simp at hkv
            rw [← hkv]; exact ⟨rfl, rfl⟩
          have hmem : ∀ p ∈ items, ∃ kv ∈ kvs, unfoldPair s d p = some kv :=
            optMapM_some_mem _ items kvs hm
          rw [hexp, dfsChildren_append,
            dfsChildren_keys b o s d _ _ items kvs hm (fun p hpm w hw => by
              obtain ⟨kv, hkvm, hkv⟩ := hmem p hpm
              have := (hpair p hpm kv hkv).1
              rw [hw] at this; simp at this; subst this
              exact ih p.1 kv.1 _ hw (plainPairs_mem kvs hp.1 kv hkvm).1),
            dfsChildren_vals b o s d _ _ items kvs hm (fun p hpm w hw => by
              obtain ⟨kv, hkvm, hkv⟩ := hmem p hpm
              have := (hpair p hpm kv hkv).2
              rw [hw] at this; simp at this; subst this
              exact ih p.2 kv.2 _ hw (plainPairs_mem kvs hp.1 kv hkvm).2)]
          simp only [buildVal]
          cases buildValKeys o kvs with
          | error e => rfl
          | ok ks =>
            cases buildValVals o kvs with
            | error e => rfl
            | ok vs =>
              simp only [liftB, bind, Except.bind]
              rw [buildNode_of b o s i cell hc _ hcell.2]
              rfl
      | custom cls attrs =>
        rw [hval] at hu
        simp only at hu
        cases hm : optMapM (fun p => (unfold s d (.obj p.2)).map (fun v => (p.1, v))) attrs with
        | none => rw [hm] at hu; simp at hu
        | some as =>
          rw [hm] at hu
          simp at hu
          subst hu
          simp [Plain] at hp

/-- **to_obj_build (BasicBuilder, pydiff.build_tree).**  Acyclic store (any sharing), standard classes, plain value
below the root: under EVERY option combination the work-stack machine terminates with a tree whose `to_obj()` is the
original value (tuples as lists, sets as multisets), up to the order of dict entries / multiset elements. -/
theorem to_obj_build {b : BKind} {s : Store} {rk : Ref → Nat} (o : Opts) (hr : Ranked b s rk) (hstd : StdStore b s)
    (i d : Nat) (v : PyVal) (hu : unfold s d (.obj i) = some v) (hp : Plain v) :
    ∃ (fuel : Nat) (t : Tree) (y : Obj), (∀ fuel' ≥ fuel, buildTree b o s fuel' (.obj i) = .ok t) ∧
      buildVal o v = .ok t ∧ toObj t = .ok y ∧ ObjEquiv y (normalise v) := by
  obtain ⟨t, y, h1, h2, h3⟩ := buildVal_toObj o v hp
  have hd : dfs b o s d [] (.obj i) = .ok t := by
    rw [sharing_not_cycle_dfs o hr d (.obj i) [] (by simp), dfs_eq_buildVal b o s hstd d i v [] hu hp, h1]
    rfl
  obtain ⟨f, hf⟩ := buildTree_of_dfs b o s d (.obj i) _ hd (by simp)
  exact ⟨f, t, y, hf, h1, h2, h3⟩

/-! ### the three entry points agree -/

/-- the class of a scalar is the standard one for its kind (what `isinstance` answers in `json.build_tree`) -/
def StdScalarMro (mro : List String) (s : Scalar) : Prop :=
  match s.kind with
  | .int => "bool" ∉ mro ∧ "int" ∈ mro
  | .bool => "bool" ∈ mro
  | .float => "bool" ∉ mro ∧ "int" ∉ mro ∧ "float" ∈ mro
  | .str => "bool" ∉ mro ∧ "int" ∉ mro ∧ "float" ∉ mro ∧ "str" ∈ mro
  | .bytes => False
  | .none => "bool" ∉ mro ∧ "int" ∉ mro ∧ "float" ∉ mro ∧ "str" ∉ mro ∧ "bytes" ∉ mro

mutual
def JsonStd : PyVal → Prop
  | .scalar mro s => StdScalarMro mro s
  | .list _ xs => JsonStdList xs
  | .tuple _ xs => JsonStdList xs
  | .dict _ kvs => JsonStdPairs kvs
  | .set _ _ => True
  | .custom _ _ _ => True
def JsonStdList : List PyVal → Prop
  | [] => True
  | x :: xs => JsonStd x ∧ JsonStdList xs
def JsonStdPairs : List (PyVal × PyVal) → Prop
  | [] => True
  | (k, v) :: rest => JsonStd k ∧ JsonStd v ∧ JsonStdPairs rest
end

theorem jsonLeaf_std (mro : List String) (s : Scalar) (h : StdScalarMro mro s) (hk : s.kind ≠ .none) :
    jsonLeaf mro (some s) = some (.ok (scalarLeaf s)) := by
  unfold StdScalarMro at h
  unfold jsonLeaf scalarLeaf
  cases hkind : s.kind with
  | int => rw [hkind] at h; simp only at h; simp [h.1, h.2, pure, Except.pure]
  | bool => rw [hkind] at h; simp only at h; simp [h, pure, Except.pure]
  | float => rw [hkind] at h; simp only at h; simp [h.1, h.2.1, h.2.2, pure, Except.pure]
  | str => rw [hkind] at h; simp only at h; simp [h.1, h.2.1, h.2.2.1, h.2.2.2, pure, Except.pure]
  | bytes => rw [hkind] at h; exact h.elim
  | none => exact absurd hkind hk

theorem jsonBuild_scalar_std (o : Opts) (mro : List String) (s : Scalar) (h : StdScalarMro mro s) :
    jsonBuild o (.scalar mro s) = .ok (scalarLeaf s) := by
  by_cases hk : s.kind = .none
  · unfold StdScalarMro at h
    rw [hk] at h
    simp only at h
    simp only [jsonBuild]
    have : jsonLeaf mro (some s) = none := by
      unfold jsonLeaf
      simp [h.1, h.2.1, h.2.2.1, h.2.2.2.1, h.2.2.2.2]
    rw [this]
    simp [hk, scalarLeaf, pure, Except.pure]
  · simp only [jsonBuild, jsonLeaf_std mro s h hk]

theorem zip_map_fst_snd {α β} : ∀ (l : List (α × β)), (l.map Prod.fst).zip (l.map Prod.snd) = l := by
  intro l
  induction l with
  | nil => rfl
  | cons p l ih => simp [ih]

mutual
theorem json_eq_buildVal (o : Opts) : ∀ (v : PyVal), JsonLike v → JsonStd v → ∀ t, jsonBuild o v = .ok t →
    buildVal o v = .ok t
  | .scalar mro s, _, hs, t, hb => by
    simp only [JsonStd] at hs
    rw [jsonBuild_scalar_std o mro s hs] at hb
    simp only [buildVal, pure, Except.pure]
    exact hb
  | .list mro xs, hj, hs, t, hb => by
    simp only [JsonLike] at hj
    simp only [JsonStd] at hs
    simp only [jsonBuild, bind, Except.bind] at hb
    cases hl : jsonBuildList o xs with
    | error e => rw [hl] at hb; simp at hb
    | ok ts =>
      rw [hl] at hb
      simp only [buildVal, bind, Except.bind, json_eq_buildVal_list o xs hj hs ts hl]
      exact hb
  | .tuple mro xs, hj, hs, t, hb => by
    simp only [JsonLike] at hj
    simp only [JsonStd] at hs
    simp only [jsonBuild, bind, Except.bind] at hb
    cases hl : jsonBuildList o xs with
    | error e => rw [hl] at hb; simp at hb
    | ok ts =>
      rw [hl] at hb
      simp only [buildVal, bind, Except.bind, json_eq_buildVal_list o xs hj hs ts hl]
      exact hb
  | .dict mro kvs, hj, hs, t, hb => by
    simp only [JsonLike] at hj
    simp only [JsonStd] at hs
    simp only [jsonBuild, bind, Except.bind] at hb
    cases hl : jsonBuildPairs o kvs with
    | error e => rw [hl] at hb; simp at hb
    | ok items =>
      rw [hl] at hb
      simp only at hb
      obtain ⟨h1, h2⟩ := json_eq_buildVal_pairs o kvs hj.1 hs items hl
      have hn : (items.map Prod.fst ++ items.map Prod.snd).length / 2 = (items.map Prod.fst).length := by
        simp [List.length_append]; omega
      simp only [buildVal, bind, Except.bind, h1, h2, buildDict]
      rw [hn]
      simp only [List.take_left', List.drop_left', zip_map_fst_snd]
      exact hb
  | .set _ _, hj, _, _, _ => by simp [JsonLike] at hj
  | .custom _ _ _, hj, _, _, _ => by simp [JsonLike] at hj
theorem json_eq_buildVal_list (o : Opts) : ∀ (xs : List PyVal), JsonLikeList xs → JsonStdList xs →
    ∀ ts, jsonBuildList o xs = .ok ts → buildValList o xs = .ok ts
  | [], _, _, ts, hb => by simpa [jsonBuildList, buildValList] using hb
  | x :: xs, hj, hs, ts, hb => by
    simp only [JsonLikeList] at hj
    simp only [JsonStdList] at hs
    simp only [jsonBuildList, bind, Except.bind] at hb
    cases h1 : jsonBuild o x with
    | error e => rw [h1] at hb; simp at hb
    | ok t =>
      rw [h1] at hb
      cases h2 : jsonBuildList o xs with
      | error e => rw [h2] at hb; simp at hb
      | ok ts' =>
        rw [h2] at hb
        simp only [buildValList, bind, Except.bind, json_eq_buildVal o x hj.1 hs.1 t h1,
          json_eq_buildVal_list o xs hj.2 hs.2 ts' h2]
        exact hb
theorem json_eq_buildVal_pairs (o : Opts) : ∀ (kvs : List (PyVal × PyVal)), JsonLikePairs kvs → JsonStdPairs kvs →
    ∀ items, jsonBuildPairs o kvs = .ok items →
      buildValKeys o kvs = .ok (items.map Prod.fst) ∧ buildValVals o kvs = .ok (items.map Prod.snd)
  | [], _, _, items, hb => by
    simp [jsonBuildPairs, pure, Except.pure] at hb
    subst hb
    exact ⟨rfl, rfl⟩
  | (k, v) :: rest, hj, hs, items, hb => by
    simp only [JsonLikePairs] at hj
    simp only [JsonStdPairs] at hs
    obtain ⟨hk, hv, hrest⟩ := hj
    cases k with
    | scalar mro s =>
      simp only [JsonKey] at hk
      simp only [JsonStd] at hs
      have hkind : s.kind ≠ .none := by
        intro hk0
        have h0 := hs.1
        unfold StdScalarMro at h0
        rw [hk0] at h0
        simp only at h0
        simp [numOrStr, h0.1, h0.2.1, h0.2.2.1, h0.2.2.2.1] at hk
      simp only [jsonBuildPairs, PyVal.mro, PyVal.scalar?, jsonLeaf_std mro s hs.1 hkind, bind, Except.bind] at hb
      cases h1 : jsonBuild o v with
      | error e => rw [h1] at hb; simp at hb
      | ok vt =>
        rw [h1] at hb
        cases h2 : jsonBuildPairs o rest with
        | error e => rw [h2] at hb; simp at hb
        | ok items' =>
          rw [h2] at hb
          simp [pure, Except.pure] at hb
          subst hb
          obtain ⟨g1, g2⟩ := json_eq_buildVal_pairs o rest hrest hs.2.2 items' h2
          constructor
          · simp [buildValKeys, buildVal, g1, bind, Except.bind, pure, Except.pure]
          · simp [buildValVals, json_eq_buildVal o v hv hs.2.1 vt h1, g2, bind, Except.bind, pure, Except.pure]
    | list _ _ => simp [JsonKey] at hk
    | tuple _ _ => simp [JsonKey] at hk
    | dict _ _ => simp [JsonKey] at hk
    | set _ _ => simp [JsonKey] at hk
    | custom _ _ _ => simp [JsonKey] at hk
end


/-- **entry_points_agree.**  On an acyclic store of standard classes holding a plain value, `BasicBuilder().build_tree`
and `pydiff.build_tree` return the same tree for every option combination, and so does `json.build_tree` whenever the
value is in its domain. -/
theorem entry_points_agree {s : Store} {rk1 rk2 : Ref → Nat} (o : Opts)
    (hr1 : Ranked .basic s rk1) (hr2 : Ranked .pyobj s rk2) (hs1 : StdStore .basic s) (hs2 : StdStore .pyobj s)
    (i d : Nat) (v : PyVal) (hu : unfold s d (.obj i) = some v) (hp : Plain v) :
    ∃ (fuel : Nat) (t : Tree),
      (∀ fuel' ≥ fuel, buildTree .basic o s fuel' (.obj i) = .ok t ∧ buildTree .pyobj o s fuel' (.obj i) = .ok t) ∧
      (JsonLike v → JsonStd v → jsonBuild o v = .ok t) := by
  obtain ⟨f1, t1, _, h1, b1, _, _⟩ := to_obj_build o hr1 hs1 i d v hu hp
  obtain ⟨f2, t2, _, h2, b2, _, _⟩ := to_obj_build o hr2 hs2 i d v hu hp
  have : t1 = t2 := by rw [b1] at b2; simpa using b2
  subst this
  refine ⟨max f1 f2, t1, fun f hf => ⟨h1 f (by omega), h2 f (by omega)⟩, ?_⟩
  intro hj hstd
  obtain ⟨t', ht'⟩ := json_build_ok o v hj
  have := json_eq_buildVal o v hj hstd t' ht'
  rw [b1] at this
  simp at this
  rw [ht', this]

/-! ### placeholders -/

mutual
/-- the tree contains a `CyclicReference` placeholder -/
def hasCyc : Tree → Bool
  | .leaf .. => false
  | .cyc .. => true
  | .node _ cs => hasCycList cs
def hasCycList : List Tree → Bool
  | [] => false
  | t :: ts => hasCyc t || hasCycList ts
end

theorem hasCycList_mem : ∀ (ts : List Tree), hasCycList ts = false → ∀ t ∈ ts, hasCyc t = false := by
  intro ts
  induction ts with
  | nil => intro _ t ht; simp at ht
  | cons a ts ih =>
    intro h t ht
    simp only [hasCycList, Bool.or_eq_false_iff] at h
    simp only [List.mem_cons] at ht
    cases ht with
    | inl h' => subst h'; exact h.1
    | inr h' => exact ih h.2 t h'

/-- stores made of lists, tuples and scalars of standard classes, with no dangling reference -/
def ListStore (b : BKind) (s : Store) : Prop :=
  ∀ (i : Nat) (c : Cell), s[i]? = some c → StdCell b c ∧
    ((∃ sc, c.val = .scalar sc) ∨ (∃ items, (c.val = .list items ∨ c.val = .tuple items) ∧ ∀ j ∈ items, j < s.length))

theorem dfsChildren_ok_forall2 (b : BKind) (o : Opts) (s : Store) (recur : Ref → Except Err Tree) (path : List Ref) :
    ∀ (cs : List Ref) (ts : List Tree), dfsChildren b o s recur path cs = .ok ts →
      Forall2 (fun c t => t = .cyc c 1 ∨ recur c = .ok t) cs ts := by
  intro cs
  induction cs with
  | nil => intro ts h; simp [dfsChildren, pure, Except.pure] at h; subst h; exact .nil
  | cons c cs ih =>
    intro ts h
    rw [dfsChildren_cons] at h
    by_cases hs : (scans b o s (expand b s c) && path.contains c) = true
    · rw [if_pos hs] at h
      by_cases hi : o.ign = true
      · rw [if_pos hi] at h
        simp only [bind, Except.bind] at h
        cases hrest : dfsChildren b o s recur path cs with
        | error e => rw [hrest] at h; simp at h
        | ok ts' => rw [hrest] at h; simp at h; subst h; exact .cons (.inl rfl) (ih ts' hrest)
      · rw [if_neg hi] at h
        simp [bind, Except.bind] at h
    · rw [if_neg hs] at h
      simp only [bind, Except.bind] at h
      cases hc : recur c with
      | error e => rw [hc] at h; simp at h
      | ok t =>
        rw [hc] at h
        simp only at h
        cases hrest : dfsChildren b o s recur path cs with
        | error e => rw [hrest] at h; simp at h
        | ok ts' => rw [hrest] at h; simp at h; subst h; exact .cons (.inr hc) (ih ts' hrest)

theorem forall2_mem_left {α β} {R : α → β → Prop} {l : List α} {rs : List β} (h : Forall2 R l rs) :
    ∀ a ∈ l, ∃ r ∈ rs, R a r := by
  induction h with
  | nil => intro a ha; simp at ha
  | cons h1 _ ih =>
    intro a ha
    simp only [List.mem_cons] at ha
    cases ha with
    | inl h => subst h; exact ⟨_, by simp, h1⟩
    | inr h => obtain ⟨r, hr, hR⟩ := ih a h; exact ⟨r, by simp [hr], hR⟩

/-- on a list store: a successful traversal whose result holds no placeholder proves well-foundedness -/
theorem dfs_ok_nocyc_acc (b : BKind) (o : Opts) (s : Store) (hls : ListStore b s) :
    ∀ (d : Nat) (x : Ref) (path : List Ref) (t : Tree), dfs b o s d path x = .ok t → hasCyc t = false →
      Acc (childRel b s) x := by
  intro d
  induction d with
  | zero => intro x path t h; simp [dfs, throw, throwThe, MonadExceptOf.throw] at h
  | succ d ih =>
    intro x path t h hnc
    simp only [dfs, bind, Except.bind] at h
    cases hc : dfsChildren b o s (dfs b o s d (x :: path)) (x :: path) (expand b s x) with
    | error e => rw [hc] at h; simp at h
    | ok ts =>
      rw [hc] at h
      simp only at h
      have hall : hasCycList ts = false := by
        cases x with
        | istr str =>
          rw [expand_istr] at hc
          simp [dfsChildren, pure, Except.pure] at hc
          subst hc; rfl
        | obj i =>
          cases hcell : s[i]? with
          | none =>
            have : buildNode b o s (.obj i) ts = .error .badRef := by simp [buildNode, Store.cell?, hcell]; rfl
            rw [this] at h; simp [liftB] at h
          | some cell =>
            obtain ⟨hstd, hshape⟩ := hls i cell hcell
            unfold StdCell at hstd
            cases hshape with
            | inl hsc =>
              obtain ⟨sc, hv⟩ := hsc
              rw [hv] at hstd
              simp only at hstd
              rw [expand_of_none b s i cell hcell hstd.1 (by rw [hstd.2]; rfl)] at hc
              simp [dfsChildren, pure, Except.pure] at hc
              subst hc; rfl
            | inr hl =>
              obtain ⟨items, hv, _⟩ := hl
              have hbn : buildNode b o s (.obj i) ts = .ok (.node (.list o.ale o.alesl) ts) := by
                cases hv with
                | inl hv => rw [hv] at hstd; simp only at hstd
                            rw [buildNode_of b o s i cell hcell _ hstd.2]; simp [applyBuilder, pure, Except.pure]
                | inr hv => rw [hv] at hstd; simp only at hstd
                            rw [buildNode_of b o s i cell hcell _ hstd.2]; simp [applyBuilder, pure, Except.pure]
              rw [hbn] at h
              simp [liftB] at h
              subst h
              simpa [hasCyc] using hnc
      constructor
      intro c hcx
      obtain ⟨tc, htc, hR⟩ := forall2_mem_left (dfsChildren_ok_forall2 b o s _ _ _ _ hc) c hcx
      have hnc' := hasCycList_mem ts hall tc htc
      cases hR with
      | inl h' => rw [h'] at hnc'; simp [hasCyc] at hnc'
      | inr h' => exact ih c (x :: path) tc h' hnc'

/-- on a list store the per-type builders never raise -/
theorem dfs_liststore_error (b : BKind) (o : Opts) (s : Store) (hls : ListStore b s) :
    ∀ (d i : Nat) (path : List Ref) (e : Err), i < s.length → dfs b o s d path (.obj i) = .error e →
      e = .outOfFuel ∨ e = .cycle := by
  intro d
  induction d with
  | zero => intro i path e _ h; simp [dfs, throw, throwThe, MonadExceptOf.throw] at h; exact .inl h.symm
  | succ d ih =>
    intro i path e hi h
    have hget : s[i]? = some s[i] := by simp [hi]
    obtain ⟨hstd, hshape⟩ := hls i s[i] hget
    unfold StdCell at hstd
    simp only [dfs, bind, Except.bind] at h
    cases hc : dfsChildren b o s (dfs b o s d (.obj i :: path)) (.obj i :: path) (expand b s (.obj i)) with
    | error e' =>
      rw [hc] at h
      simp at h
      subst h
      cases dfsChildren_error b o s _ _ _ _ hc with
      | inl h => exact .inr h
      | inr h =>
        obtain ⟨c, hcm, _, herr⟩ := h
        cases hshape with
        | inl hsc =>
          obtain ⟨sc, hv⟩ := hsc
          rw [hv] at hstd
          simp only at hstd
          rw [expand_of_none b s i _ hget hstd.1 (by rw [hstd.2]; rfl)] at hcm
          simp at hcm
        | inr hl =>
          obtain ⟨items, hv, hclosed⟩ := hl
          have hexp : expand b s (.obj i) = items.map .obj := by
            cases hv with
            | inl hv => rw [hv] at hstd; simp only at hstd
                        exact expand_of_list b s i _ hget hstd.1 _ (by rw [hv]; rfl)
            | inr hv => rw [hv] at hstd; simp only at hstd
                        exact expand_of_list b s i _ hget hstd.1 _ (by rw [hv]; rfl)
          rw [hexp] at hcm
          obtain ⟨j, hj, rfl⟩ := List.mem_map.1 hcm
          exact ih j _ e' (hclosed j hj) herr
    | ok ts =>
      rw [hc] at h
      simp only at h
      exfalso
      cases hshape with
      | inl hsc =>
        obtain ⟨sc, hv⟩ := hsc
        rw [hv] at hstd
        simp only at hstd
        rw [expand_of_none b s i _ hget hstd.1 (by rw [hstd.2]; rfl)] at hc
        simp [dfsChildren, pure, Except.pure] at hc
        subst hc
        rw [buildNode_of b o s i _ hget _ hstd.2, hv, applyBuilder_scalar] at h
        simp [liftB] at h
      | inr hl =>
        obtain ⟨items, hv, _⟩ := hl
        cases hv with
        | inl hv => rw [hv] at hstd; simp only at hstd
                    rw [buildNode_of b o s i _ hget _ hstd.2] at h; simp [applyBuilder, pure, Except.pure, liftB] at h
        | inr hv => rw [hv] at hstd; simp only at hstd
                    rw [buildNode_of b o s i _ hget _ hstd.2] at h; simp [applyBuilder, pure, Except.pure, liftB] at h

/-- **cycle_placeholder (lists and tuples).**  Cycle checking on, `ignore_cycles` on, a store of lists / tuples /
scalars with a cycle reachable from the root: the machine terminates with a TREE (no exception) that contains a
`CyclicReference` placeholder.  (For dict-valued cycles see `cycle_placeholder_partial`.) -/
theorem cycle_placeholder_lists (b : BKind) (o : Opts) (s : Store) (hchk : o.chk = true) (hign : o.ign = true)
    (hls : ListStore b s) (i : Nat) (hi : i < s.length) (hc : HasCycle b s (.obj i)) :
    ∃ (fuel : Nat) (t : Tree), (∀ fuel' ≥ fuel, buildTree b o s fuel' (.obj i) = .ok t) ∧ hasCyc t = true := by
  obtain ⟨f, r, h1, h2, h3⟩ := build_terminates_checked b o s hchk (.obj i)
  cases r with
  | error e =>
    exfalso
    cases dfs_liststore_error b o s hls _ i [] e hi h2.symm with
    | inl h => exact h3 (by rw [h])
    | inr h => exact dfs_ign_ne_cycle b o s hign _ _ _ (by rw [← h2, h])
  | ok t =>
    refine ⟨f, t, h1, ?_⟩
    cases hcy : hasCyc t with
    | true => rfl
    | false => exact absurd (dfs_ok_nocyc_acc b o s hls _ _ _ t h2.symm hcy) (not_acc_of_hasCycle hc)


/-- **cycle_detected (lists and tuples).**  On such a store with `ignore_cycles` off the outcome is exactly the
cycle error. -/
theorem cycle_detected_lists (b : BKind) (o : Opts) (s : Store) (hchk : o.chk = true) (hign : o.ign = false)
    (hls : ListStore b s) (i : Nat) (hi : i < s.length) (hc : HasCycle b s (.obj i)) :
    ∃ fuel, ∀ fuel' ≥ fuel, buildTree b o s fuel' (.obj i) = .error .cycle := by
  obtain ⟨f, r, h1, h2, h3⟩ := build_terminates_checked b o s hchk (.obj i)
  cases r with
  | ok t => exact absurd h2.symm (cycle_never_ok b o s hign (.obj i) hc _ _ t)
  | error e =>
    cases dfs_liststore_error b o s hls _ i [] e hi h2.symm with
    | inl h => exact absurd (by rw [h]) h3
    | inr h => exact ⟨f, by rw [← h]; exact h1⟩

/-! ### deep copy -/

/-- **copy_eq.**  For every tree the builders make of a plain value (any options), `TreeNode.copy()` — the work-stack
machine of tree.py — terminates and returns `reset t`: the same tree except that `copy_from` drops
`allow_list_edits`, `allow_list_edits_when_same_length` (both back to True) and `StringNode.quoted` (back to True);
the copy is `==` to the original (`__eq__` ignores exactly those flags) and has the same plain value. -/
theorem copy_eq (o : Opts) (v : PyVal) (hp : Plain v) (t : Tree) (hb : buildVal o v = .ok t) :
    ∃ fuel, ∀ fuel' ≥ fuel, copyTree fuel' t = .ok (reset t) ∧ Tree.pyEq (reset t) t = true ∧
      toObj (reset t) = toObj t := by
  have hbt := buildVal_built o v hp t hb
  obtain ⟨f, hf⟩ := copyTree_of_copyRec t
  refine ⟨f, fun f' hf' => ⟨?_, pyEq_reset_self t hbt, toObj_reset t hbt⟩⟩
  rw [hf f' hf', copyRec_built t hbt]
  rfl

/-- the same for trees with placeholders (any built shape): the copy re-wraps every `CyclicReference`, which is
why `copy() == tree` is False for them (known finding `copy-neq/cyclicref`) -/
theorem copy_built {ac ap : Bool} (t : Tree) (h : Built ac ap t) : ∃ fuel, ∀ fuel' ≥ fuel, copyTree fuel' t = .ok (reset t) := by
  obtain ⟨f, hf⟩ := copyTree_of_copyRec t
  refine ⟨f, fun f' hf' => ?_⟩
  rw [hf f' hf', copyRec_built t h]
  rfl

example : Tree.pyEq (reset (.cyc (.obj 0) 1)) (.cyc (.obj 0) 1) = false := by simp [Tree.pyEq]

/-! ### non-vacuity: concrete stores satisfying the hypotheses above -/

def intCell : Cell := ⟨["int", "object"], .scalar ⟨.int, "1", "n:1/1", "1", some (1, 1), none⟩⟩
def listCell (items : List Nat) : Cell := ⟨["list", "object"], .list items⟩
/-- `s = [1]; root = [s, s]` — the same list object referenced twice -/
def dagStore : Store := [listCell [1, 1], listCell [2], intCell]
def rkDag : Ref → Nat
  | .obj 0 => 2
  | .obj 1 => 1
  | _ => 0

theorem ex1 : expand .basic dagStore (.obj 0) = [.obj 1, .obj 1] := by decide
theorem ex2 : expand .basic dagStore (.obj 1) = [.obj 2] := by decide
theorem ex3 : expand .basic dagStore (.obj 2) = [] := by decide

example : Ranked .basic dagStore rkDag := by
  intro x c h
  match x with
  | .istr str => rw [expand_istr] at h; simp at h
  | .obj 0 => rw [ex1] at h; simp at h; subst h; simp [rkDag]
  | .obj 1 => rw [ex2] at h; simp at h; subst h; simp [rkDag]
  | .obj 2 => rw [ex3] at h; simp at h
  | .obj (n + 3) => rw [expand_oob _ _ _ (by simp [dagStore])] at h; simp at h

def selfCycle : Store := [listCell [0]]
def dflt : Opts := ⟨true, true, true, true, true, false⟩
example : HasCycle .basic selfCycle (.obj 0) := ⟨.obj 0, .refl _, .obj 0, by decide, .refl _⟩
example : buildTree .basic dflt selfCycle 5 (.obj 0) = .error .cycle := by rfl
example : buildTree .basic { dflt with ign := true } selfCycle 5 (.obj 0)
    = .ok (.node (.list true true) [.cyc (.obj 0) 1]) := by rfl
example : buildTree .basic dflt dagStore 20 (.obj 0) = .ok (.node (.list true true)
    [.node (.list true true) [.leaf .integer ⟨.int, "1", "n:1/1", "1", some (1, 1), none⟩ true],
     .node (.list true true) [.leaf .integer ⟨.int, "1", "n:1/1", "1", some (1, 1), none⟩ true]]) := by rfl

example : StdStore .basic dagStore ∧ StdStore .pyobj dagStore := by
  constructor <;> intro i c h <;>
    (match i with
     | 0 => simp [dagStore, listCell] at h; subst h; exact ⟨by decide, by decide⟩
     | 1 => simp [dagStore, listCell] at h; subst h; exact ⟨by decide, by decide⟩
     | 2 => simp [dagStore, intCell] at h; subst h; exact ⟨by decide, by decide⟩
     | n + 3 => simp [dagStore] at h)
example : ∃ v, unfold dagStore 3 (.obj 0) = some v ∧ Plain v :=
  ⟨_, rfl, by simp [Plain, PlainList]⟩

example : ListStore .basic selfCycle := by
  intro i c h
  match i with
  | 0 =>
    simp [selfCycle, listCell] at h; subst h
    exact ⟨⟨by decide, by decide⟩, .inr ⟨[0], .inl rfl, by simp [selfCycle]⟩⟩
  | n + 1 => simp [selfCycle] at h

def strV (x : String) : PyVal := .scalar ["str", "object"] (Scalar.ofStr x)
def intV (n : Nat) : PyVal := .scalar ["int", "object"] ⟨.int, toString n, "n:" ++ toString n ++ "/1", toString n, some (n, 1), none⟩
def noneV : PyVal := .scalar ["NoneType", "object"] Scalar.none
/-- `{"a": [1, (2,)], "b": None}` -/
def jsonExample : PyVal :=
  .dict ["dict", "object"] [(strV "a", .list ["list", "object"] [intV 1, .tuple ["tuple", "object"] [intV 2]]), (strV "b", noneV)]
example : JsonLike jsonExample := by
  simp [jsonExample, JsonLike, JsonLikePairs, JsonLikeList, JsonKey, JsonScalar, DistinctKeys, keyEqc, strV, intV, noneV,
    numOrStr, Scalar.ofStr]
example : JsonStd jsonExample ∧ Plain jsonExample := by
  constructor
  · simp [jsonExample, JsonStd, JsonStdPairs, JsonStdList, StdScalarMro, strV, intV, noneV, Scalar.ofStr, Scalar.none]
  · simp [jsonExample, Plain, PlainPairs, PlainList, IsScalarVal, valEqc, strV, intV, noneV, Scalar.ofStr, Scalar.none]

/-! ### [audit] additional non-vacuity / sharpness examples (added by the auditor; nothing above was changed) -/

-- [audit] non-vacuity: a store with a dict, a tuple, a bool, None, a twice-referenced list (sharing) and
-- nesting depth 3 satisfies ALL hypotheses of `to_obj_build`, `entry_points_agree` (incl. the json part) and `copy_eq`
def aStr (x : String) : Cell := ⟨["str", "object"], .scalar (Scalar.ofStr x)⟩
def aNone : Cell := ⟨["NoneType", "object"], .scalar Scalar.none⟩
def aTrue : Cell := ⟨["bool", "int", "object"], .scalar ⟨.bool, "True", "n:1/1", "True", some (1, 1), none⟩⟩
def aDict (items : List (Nat × Nat)) : Cell := ⟨["dict", "object"], .dict items⟩
def aTuple (items : List Nat) : Cell := ⟨["tuple", "object"], .tuple items⟩
def aSet (items : List Nat) : Cell := ⟨["set", "object"], .set items⟩

/-- `L = [(1, True), 1]; root = {"a": L, "b": L, "c": None}` -/
def jsonStore : Store :=
  [aDict [(4, 1), (5, 1), (6, 7)], listCell [2, 3], aTuple [3, 8], intCell, aStr "a", aStr "b", aStr "c", aNone, aTrue]

def rkJ : Ref → Nat
  | .obj 0 => 3
  | .obj 1 => 2
  | .obj 2 => 1
  | _ => 0

theorem ranked_jsonStore (b : BKind) : Ranked b jsonStore rkJ := by
  have e0 : expand b jsonStore (.obj 0) = [.obj 4, .obj 5, .obj 6, .obj 1, .obj 1, .obj 7] := by cases b <;> decide
  have e1 : expand b jsonStore (.obj 1) = [.obj 2, .obj 3] := by cases b <;> decide
  have e2 : expand b jsonStore (.obj 2) = [.obj 3, .obj 8] := by cases b <;> decide
  have e3 : ∀ i, 3 ≤ i → i < 9 → expand b jsonStore (.obj i) = [] := by
    intro i h1 h2
    have : i = 3 ∨ i = 4 ∨ i = 5 ∨ i = 6 ∨ i = 7 ∨ i = 8 := by omega
    rcases this with h | h | h | h | h | h <;> subst h <;> cases b <;> decide
  intro x c h
  match x with
  | .istr str => rw [expand_istr] at h; simp at h
  | .obj 0 => rw [e0] at h; simp at h; rcases h with h | h | h | h | h <;> subst h <;> simp [rkJ]
  | .obj 1 => rw [e1] at h; simp at h; rcases h with h | h <;> subst h <;> simp [rkJ]
  | .obj 2 => rw [e2] at h; simp at h; rcases h with h | h <;> subst h <;> simp [rkJ]
  | .obj (n + 3) =>
    by_cases hn : n + 3 < 9
    · rw [e3 (n + 3) (by omega) hn] at h; simp at h
    · rw [expand_oob _ _ _ (by simp [jsonStore]; omega)] at h; simp at h

theorem std_jsonStore (b : BKind) : StdStore b jsonStore := by
  intro i c h
  match i with
  | 0 => simp [jsonStore, aDict] at h; subst h; cases b <;> exact ⟨by decide, by decide⟩
  | 1 => simp [jsonStore, listCell] at h; subst h; cases b <;> exact ⟨by decide, by decide⟩
  | 2 => simp [jsonStore, aTuple] at h; subst h; cases b <;> exact ⟨by decide, by decide⟩
  | 3 => simp [jsonStore, intCell] at h; subst h; cases b <;> exact ⟨by decide, by decide⟩
  | 4 => simp [jsonStore, aStr] at h; subst h; cases b <;> exact ⟨by decide, by decide⟩
  | 5 => simp [jsonStore, aStr] at h; subst h; cases b <;> exact ⟨by decide, by decide⟩
  | 6 => simp [jsonStore, aStr] at h; subst h; cases b <;> exact ⟨by decide, by decide⟩
  | 7 => simp [jsonStore, aNone] at h; subst h; cases b <;> exact ⟨by decide, by decide⟩
  | 8 => simp [jsonStore, aTrue] at h; subst h; cases b <;> exact ⟨by decide, by decide⟩
  | n + 9 => simp [jsonStore] at h

def jsonStoreVal : PyVal :=
  let one : PyVal := .scalar ["int", "object"] ⟨.int, "1", "n:1/1", "1", some (1, 1), none⟩
  let tru : PyVal := .scalar ["bool", "int", "object"] ⟨.bool, "True", "n:1/1", "True", some (1, 1), none⟩
  let l : PyVal := .list ["list", "object"] [.tuple ["tuple", "object"] [one, tru], one]
  .dict ["dict", "object"] [(strV "a", l), (strV "b", l), (strV "c", noneV)]

theorem unfold_jsonStore : unfold jsonStore 4 (.obj 0) = some jsonStoreVal := by rfl

theorem plain_jsonStoreVal : Plain jsonStoreVal ∧ JsonLike jsonStoreVal ∧ JsonStd jsonStoreVal := by
  refine ⟨?_, ?_, ?_⟩
  · simp [jsonStoreVal, Plain, PlainPairs, PlainList, IsScalarVal, valEqc, strV, noneV, Scalar.ofStr, Scalar.none]
  · simp [jsonStoreVal, JsonLike, JsonLikePairs, JsonLikeList, JsonKey, JsonScalar, DistinctKeys, keyEqc, strV, noneV,
      numOrStr, Scalar.ofStr]
  · simp [jsonStoreVal, JsonStd, JsonStdPairs, JsonStdList, StdScalarMro, strV, noneV, Scalar.ofStr, Scalar.none]

-- the main theorems instantiated on it (every option `o`)
example (o : Opts) := to_obj_build (b := .pyobj) o (ranked_jsonStore _) (std_jsonStore _) 0 4 _ unfold_jsonStore plain_jsonStoreVal.1
example (o : Opts) : ∃ fuel t, (∀ fuel' ≥ fuel, buildTree .basic o jsonStore fuel' (.obj 0) = .ok t ∧
    buildTree .pyobj o jsonStore fuel' (.obj 0) = .ok t) ∧ jsonBuild o jsonStoreVal = .ok t := by
  obtain ⟨f, t, h1, h2⟩ := entry_points_agree o (ranked_jsonStore _) (ranked_jsonStore _) (std_jsonStore _) (std_jsonStore _)
    0 4 _ unfold_jsonStore plain_jsonStoreVal.1
  exact ⟨f, t, h1, h2 plain_jsonStoreVal.2.1 plain_jsonStoreVal.2.2⟩
example (o : Opts) : ∃ t fuel, ∀ fuel' ≥ fuel, copyTree fuel' t = .ok (reset t) ∧ Tree.pyEq (reset t) t = true ∧
    toObj (reset t) = toObj t := by
  obtain ⟨t, _, hb, _⟩ := buildVal_toObj o jsonStoreVal plain_jsonStoreVal.1
  exact ⟨t, copy_eq o jsonStoreVal plain_jsonStoreVal.1 t hb⟩

-- [audit 2, G-18-1] non-finite floats are INSIDE the domain of `copy_eq`: `[nan, inf, -0.0]` (the cells exactly as the stream
-- encodes them: `eqc` = the class of `LeafNode.__eq__`, which since graphtage 8b61c77 puts every NaN into one class;
-- `num` with denominator 0 = non-finite).  The same inputs run on the real code in every check (`_edge_cases` of the stream),
-- where `copy() == tree` is monitored directly.
def nanS : Scalar := ⟨.float, "nan", "nan", "nan", some (0, 0), none⟩
def infS : Scalar := ⟨.float, "inf", "n:inf", "inf", some (1, 0), none⟩
def negZeroS : Scalar := ⟨.float, "-0x0.0p+0", "n:0/1", "-0.0", some (0, 1), none⟩
def nanListV : PyVal :=
  .list ["list", "object"] [.scalar ["float", "object"] nanS, .scalar ["float", "object"] infS, .scalar ["float", "object"] negZeroS]
theorem plain_nanListV : Plain nanListV := by
  simp [nanListV, Plain, PlainList, nanS, infS, negZeroS]
example (o : Opts) : ∃ t fuel, buildVal o nanListV = .ok t ∧ ∀ fuel' ≥ fuel, copyTree fuel' t = .ok (reset t) ∧
    Tree.pyEq (reset t) t = true ∧ toObj (reset t) = toObj t := by
  obtain ⟨t, _, hb, _⟩ := buildVal_toObj o nanListV plain_nanListV
  obtain ⟨f, hf⟩ := copy_eq o nanListV plain_nanListV t hb
  exact ⟨t, f, hb, hf⟩
-- `<` on the non-finite floats as Python computes it (used by the key sort of `DictNode.from_dict`)
example : scalarLt nanS infS = false ∧ scalarLt infS nanS = false ∧ scalarLt negZeroS infS = true ∧ scalarLt infS negZeroS = false ∧
    scalarLt ⟨.float, "-inf", "n:-inf", "-inf", some (-1, 0), none⟩ infS = true ∧ scalarLt infS infS = false := by decide

-- [audit] non-vacuity: standard MROs in both generated tables, a store with a set, mutual / dict-valued cycles,
-- and a witness that the `∃ be, e = .build be` disjunct of `cycle_detected` is needed

-- every standard MRO dispatches the standard way in BOTH generated tables
example (b : BKind) : StdCell b ⟨["bool", "int", "object"], .scalar ⟨.bool, "True", "n:1/1", "True", some (1, 1), none⟩⟩ := by
  cases b <;> exact ⟨by decide, by decide⟩
example (b : BKind) : StdCell b ⟨["float", "object"], .scalar ⟨.float, "0x1.8p+0", "n:3/2", "1.5", some (3, 2), none⟩⟩ := by
  cases b <;> exact ⟨by decide, by decide⟩
example (b : BKind) : StdCell b ⟨["bytes", "object"], .scalar ⟨.bytes, "61", "b:61", "b'a'", none, some "a"⟩⟩ := by
  cases b <;> exact ⟨by decide, by decide⟩
example (b : BKind) : StdCell b ⟨["frozenset", "object"], .set [1]⟩ := by
  cases b <;> exact ⟨by decide, by decide⟩
example (b : BKind) : StdCell b ⟨["set", "object"], .set [1]⟩ := by
  cases b <;> exact ⟨by decide, by decide⟩

/-- `D = {1: {1, "a"}}; root = [D, D]` -/
def setStore : Store := [listCell [1, 1], aDict [(3, 2)], aSet [3, 4], intCell, aStr "a"]
def rkS : Ref → Nat
  | .obj 0 => 3
  | .obj 1 => 2
  | .obj 2 => 1
  | _ => 0
theorem ranked_setStore (b : BKind) : Ranked b setStore rkS := by
  have e0 : expand b setStore (.obj 0) = [.obj 1, .obj 1] := by cases b <;> decide
  have e1 : expand b setStore (.obj 1) = [.obj 3, .obj 2] := by cases b <;> decide
  have e2 : expand b setStore (.obj 2) = [.obj 3, .obj 4] := by cases b <;> decide
  have e3 : expand b setStore (.obj 3) = [] := by cases b <;> decide
  have e4 : expand b setStore (.obj 4) = [] := by cases b <;> decide
  intro x c h
  match x with
  | .istr str => rw [expand_istr] at h; simp at h
  | .obj 0 => rw [e0] at h; simp at h; subst h; simp [rkS]
  | .obj 1 => rw [e1] at h; simp at h; rcases h with h | h <;> subst h <;> simp [rkS]
  | .obj 2 => rw [e2] at h; simp at h; rcases h with h | h <;> subst h <;> simp [rkS]
  | .obj 3 => rw [e3] at h; simp at h
  | .obj 4 => rw [e4] at h; simp at h
  | .obj (n + 5) => rw [expand_oob _ _ _ (by simp [setStore])] at h; simp at h
theorem std_setStore (b : BKind) : StdStore b setStore := by
  intro i c h
  match i with
  | 0 => simp [setStore, listCell] at h; subst h; cases b <;> exact ⟨by decide, by decide⟩
  | 1 => simp [setStore, aDict] at h; subst h; cases b <;> exact ⟨by decide, by decide⟩
  | 2 => simp [setStore, aSet] at h; subst h; cases b <;> exact ⟨by decide, by decide⟩
  | 3 => simp [setStore, intCell] at h; subst h; cases b <;> exact ⟨by decide, by decide⟩
  | 4 => simp [setStore, aStr] at h; subst h; cases b <;> exact ⟨by decide, by decide⟩
  | n + 5 => simp [setStore] at h
theorem plain_setStore : ∃ v, unfold setStore 4 (.obj 0) = some v ∧ Plain v :=
  ⟨_, rfl, by simp [Plain, PlainList, PlainPairs, IsScalarVal, valEqc, Scalar.ofStr]⟩
example (o : Opts) : ∃ fuel t y v, (∀ fuel' ≥ fuel, buildTree .basic o setStore fuel' (.obj 0) = .ok t) ∧
    toObj t = .ok y ∧ unfold setStore 4 (.obj 0) = some v ∧ ObjEquiv y (normalise v) := by
  obtain ⟨v, hu, hp⟩ := plain_setStore
  obtain ⟨f, t, y, h1, _, h3, h4⟩ := to_obj_build (b := .basic) o (ranked_setStore _) (std_setStore _) 0 4 v hu hp
  exact ⟨f, t, y, v, h1, h3, hu, h4⟩

/-- mutual cycle at depth 2 through a tuple: `a = [t, 1]; t = (a,)` -/
def mutCycle : Store := [listCell [1, 2], aTuple [0], intCell]
theorem listStore_mutCycle (b : BKind) : ListStore b mutCycle := by
  intro i c h
  match i with
  | 0 => simp [mutCycle, listCell] at h; subst h
         exact ⟨by cases b <;> exact ⟨by decide, by decide⟩, .inr ⟨[1, 2], .inl rfl, by simp [mutCycle]⟩⟩
  | 1 => simp [mutCycle, aTuple] at h; subst h
         exact ⟨by cases b <;> exact ⟨by decide, by decide⟩, .inr ⟨[0], .inr rfl, by simp [mutCycle]⟩⟩
  | 2 => simp [mutCycle, intCell] at h; subst h
         exact ⟨by cases b <;> exact ⟨by decide, by decide⟩, .inl ⟨_, rfl⟩⟩
  | n + 3 => simp [mutCycle] at h
theorem hasCycle_mutCycle : HasCycle .basic mutCycle (.obj 0) :=
  ⟨.obj 0, .refl _, .obj 1, by decide, .step (c := .obj 0) (by decide) (.refl _)⟩
example := cycle_detected_lists .basic dflt mutCycle rfl rfl (listStore_mutCycle _) 0 (by decide) hasCycle_mutCycle
example := cycle_placeholder_lists .basic { dflt with ign := true } mutCycle rfl rfl (listStore_mutCycle _) 0 (by decide) hasCycle_mutCycle
example : buildTree .basic dflt mutCycle 20 (.obj 0) = .error .cycle := by rfl

/-- cycle through a dict VALUE and a tuple, two levels below the root: `d = {"k": (root, d)}; root = [d]` -/
def dictCycle : Store := [listCell [1], aDict [(3, 2)], aTuple [0, 1], aStr "k"]
theorem hasCycle_dictCycle : HasCycle .basic dictCycle (.obj 0) :=
  ⟨.obj 1, .step (c := .obj 1) (by decide) (.refl _), .obj 2, by decide, .step (c := .obj 1) (by decide) (.refl _)⟩
example : buildTree .basic dflt dictCycle 30 (.obj 0) = .error .cycle := by rfl
example := cycle_detected .basic dflt dictCycle rfl rfl (.obj 0) hasCycle_dictCycle

/-- the `∃ be, e = .build be` disjunct of `cycle_detected` is really needed: `root = [A(), root]` under BasicBuilder
raises NotImplementedError for `A()` before the cycle is closed -/
def errFirst : Store := [listCell [1, 0], ⟨["A", "object"], .custom "A" []⟩]
example : HasCycle .basic errFirst (.obj 0) := ⟨.obj 0, .refl _, .obj 0, by decide, .refl _⟩
example : buildTree .basic dflt errFirst 30 (.obj 0) = .error (.build .notImplemented) := by rfl

-- the function the stream runs for the json entry (`jsonBuildStore`) vs the function of the theorems (`jsonBuild`)
example : jsonBuildStore dflt dagStore (.obj 0) = (unfold dagStore 5 (.obj 0)).elim (.error .recursion) (jsonBuild dflt) := by rfl

end GtModel.C18

/-
  C19 — "Match expressions cannot reach private attributes".

  Statement (properties.jsonl): evaluating any user-supplied match expression never reads an attribute whose
  name begins with an underscore from any object it can reach, and the only names it can resolve are the
  variables it was given and the documented whitelist of built-ins.

  What is proved here, for the model `GtModel.Expr.eval` of `Expression.eval` (tied to the code by stream
  `expr`), for EVERY token list (a superset of what the parser can emit), every environment, every host
  and every initial host state:

    * `no_underscore_getattr`      the evaluator itself never issues an attribute read with an underscore name;
    * `reads_classified`           every attribute read it issues is either `getattr(obj, <non-underscore name>)`
                                   from `get_member`, or the `member.offset` probe of `get_member`'s error path;
    * `names_resolved`             every identifier it resolves is a key of `locals` or of `globals`;
    * `names_resolved_default`     with the default globals: a key of `locals` or a documented whitelist name;
    * `whitelist_eq_documented`    generated `DEFAULT_GLOBALS` key list = list documented in the module docstring;
    * table obligations            `only_member_keeps_raw_operand`, `member_access_row`, `table_shapes`,
                                   `table_wellFormed`; with `expandArgs_allObj` / `expandArgs_headObj` they show
                                   that operators of the generated table only ever see evaluated operands
                                   (except `get_member`'s right one), i.e. the model's `rawOperand` answer is dead.

    * `host_never_asked_underscore` the same statement about the HOST CALLS instead of the evaluator's own log: on the
                                   recording wrapper `spy h` of any host (its `getattr` appends every name it is asked
                                   for), no recorded name starts with an underscore.  `HostOK.getattr` is only assumed
                                   for public names, so the proof has to establish publicity at both call sites; an
                                   evaluator that passed an underscore name to the host without logging it satisfies
                                   `no_underscore_getattr` but not this theorem.
    * `ghost_log_faithful`         on `spy h`, the evaluator's `reads` log lists exactly the names the host was asked
                                   for, in order (the log the other theorems speak about is not a fiction).
    * `spy_erasure`, `host_calls_are_the_logged_reads`
                                   the wrapper is invisible (same result, same host state, same log), hence for the run
                                   on `h` itself: logged names = names the host's `getattr` receives, all public.
    * `reflective_member_refused`, `safe_method_intercepted`
                                   `get_member` never calls `getattr` on a `_REFLECTIVE_TYPES` object, and never
                                   hands out the real `str.format` / `str.format_map`;
    * `concrete_host_no_underscore` on the concrete host of the correspondence stream (which contains the model of
                                   `_SafeFormatter`, including its traversal INTO generator / frame / code objects), no
                                   ATTRIBUTE read performed inside a host operation has an underscore name;
    * `prefix_format_bypass_witness` the same host with a formatter that lacks the refusal of
                                   `_SafeFormatter.get_field` (the behaviour before fix e68be99) leaks `_priv`.
    * `format_traverses_reflective_witness`, `format_reads_private_global_witness`, `member_of_generator_refused_witness`,
      `format_underscore_attribute_of_frame_refused_witness`
                                   THE CURRENT CODE'S GAP, in the model as in the code: `g.gi_frame` is refused by
                                   `get_member`, but `'{0.gi_frame.f_globals[__builtins__][getattr]}'.format(g)` and
                                   `'{0.gi_frame.f_globals[_REC]}'.format(g)` succeed (index steps are not vetted, and
                                   `gi_frame`, `f_globals` are public names); only `{0.gi_frame._x}` is refused.

  WHAT THE THEOREMS DO NOT SAY.  They hold at the evaluator's call sites (`get_member`, `get_value`) for every host.
  Whether private state crosses the boundary INSIDE a host operation (`call`, `getitem`, …) is a property of the host;
  it is proved only for the concrete host of the stream (`concrete_host_no_underscore`) and otherwise observed by the
  stream's monitors on the real code.  (`spy_erasure`: `eval (spy h)` and `eval h` return the same result, host state
  and log, so the statements on the recording wrapper are statements about the run on `h` itself.)

  HOST CONTRACT (assumption, validated by the tripwire monitor of stream `expr`, not provable inside the model):
  the whole-system reading of C19 — "never reads an underscore attribute from any object it can reach" —
  follows from `no_underscore_getattr` provided that no whitelisted builtin and no public attribute/method of
  a reachable object performs name-driven attribute traversal or hands out reflective objects, WHERE
    (a) `str.format` / `str.format_map` (the one builtin API that traverses attributes named in its argument)
        are not reachable: `get_member` replaces them by `_safe_format` / `_safe_format_map`, whose
        `get_field` refuses every ATTRIBUTE step whose name starts with an underscore (modelled in the concrete host,
        `concrete_host_no_underscore`) — and nothing else: index steps (`[__builtins__]`, `[_name]`) and public
        attribute names are followed on ANY object, reflective ones included;
    (b) objects of `_REFLECTIVE_TYPES` (frame, code, traceback, generator, coroutine, async generator, module —
        the Gen table `reflectiveTypes`) may be values of an expression; `get_member` reads none of their members
        (`reflective_member_refused`), so no frame, code object, namespace dict or builtin is ever obtained AS A
        VALUE and `(g.gi_frame.f_builtins)['getattr'](x, '_priv')` is out of reach.
  CLAUSE (b) DOES NOT COVER FORMAT FIELDS (contract gap on the current code, monitor key
  `format-traverses-reflective:<first attribute>`): `'{0.gi_frame.f_globals[__builtins__][getattr]}'.format(g)`
  evaluates to `'<built-in function getattr>'`, `…f_code.co_filename}` to the path of the source file,
  `…f_globals[sys].modules[os].environ[HOME]}` to the value of an environment variable, `…f_globals[_private]}` to the
  text of a module-private global: the formatter walks generator → frame → namespaces / code (and from there modules,
  classes, …) by public attribute names and arbitrary keys.  Only TEXT comes back — no object, no callable, and no
  underscore-named ATTRIBUTE is read — so the letter of C19 ("never reads an attribute whose name begins with an
  underscore") holds, but `_SafeFormatter`'s documented intent ("replacement fields obey the same rule as
  `get_member`") does not: `get_member` refuses every member of these objects.  The concrete host mirrors the
  traversal (results are `CV.ostr`: "some str", the text itself is not modelled) and the stream compares the result
  class (str / which exception) with the real code.
  THE HOST CONTRACT IS FALSE ON REAL TREE NODES (finding D26, monitor key
  `public-method-exposes-private:editable_dict`): with `--match-if` the names `from` / `to` are bound to
  `TreeNode`s, and the PUBLIC method `TreeNode.editable_dict()` returns `dict(self.__dict__)`, so
  `(from.editable_dict('')[0])['_children']` hands a node's private attributes (`_children`, `_parent`, …) to the
  expression.  The evaluator issues no underscore read (every theorem below still holds, and
  `no_underscore_getattr` is exactly what the run shows: reads `editable_dict`, then a `call` and a `getitem`);
  the private state crosses the boundary inside the host operation `call`.  Hence the END-TO-END claim of C19
  holds only MODULO D26: for hosts whose reachable public API does not hand out an object's private state.  The
  stream binds real nodes (case kind `node`), calls every public member of every node class with every underscore
  attribute name, and reports any OTHER exposure — a node's `__dict__`, a private mutable container by identity, or
  private attribute names as mapping keys / first elements of pairs — under the exposing method's own key, which
  fails the check.
  Before fixes e68be99 / 091716e both (a) and (b) failed outright (objects were obtained); the monitor keys
  `format-field-attribute` and `reflective-builtin` stay active and the two shrunk reproducers are replayed from
  corpus/expr on every run.
-/
import GtModel.Proofs.Expr
import GtModel.Model.ExprHost

namespace GtModel.C19
open GtModel.Expr

variable {σ Obj : Type}

theorem hostOK_true (h : Host σ Obj) : HostOK h (fun _ => True) :=
  ⟨fun _ _ _ _ _ => trivial, fun _ _ _ _ => trivial, fun _ _ _ _ => trivial, fun _ _ _ => trivial,
   fun _ _ _ => trivial, fun _ _ _ _ _ => trivial, fun _ _ _ => trivial, fun _ _ _ => trivial⟩

/-- The evaluator never issues an attribute read whose name starts with an underscore. -/
theorem no_underscore_getattr (h : Host σ Obj) (locals globals : Env Obj) (tokens : List Tok) (s0 : σ) :
    ∀ p ∈ attrReads (eval h locals globals tokens s0), ¬ (p.2.startsWith "_" = true) := by
  have inv := inv_eval (h := h) (locals := locals) (globals := globals)
    (R := fun r => ¬ (r.name.startsWith "_" = true)) (N := fun _ => True)
    (H := fun _ => True) (hostOK_true h)
    ⟨fun _ _ hn => hn, fun _ => offset_public, fun _ _ _ => trivial⟩ tokens s0 trivial
  intro p hp
  simp only [attrReads, List.mem_map] at hp
  obtain ⟨r, hr, rfl⟩ := hp
  exact inv.reads r hr

/-- Every attribute read of the evaluator is `getattr(obj, name)` with a non-underscore `name` (the
    `get_member` success path) or the `member.offset` probe (the `get_member` error path). -/
theorem reads_classified (h : Host σ Obj) (locals globals : Env Obj) (tokens : List Tok) (s0 : σ) :
    ∀ r ∈ (eval h locals globals tokens s0).2.reads,
      (r.viaGetattr = true ∧ ¬ (r.name.startsWith "_" = true)) ∨ (r.viaGetattr = false ∧ r.name = "offset") := by
  have inv := inv_eval (h := h) (locals := locals) (globals := globals)
    (R := fun r => (r.viaGetattr = true ∧ ¬ (r.name.startsWith "_" = true)) ∨ (r.viaGetattr = false ∧ r.name = "offset"))
    (N := fun _ => True)
    (H := fun _ => True) (hostOK_true h)
    ⟨fun _ _ hn => Or.inl ⟨rfl, hn⟩, fun _ => Or.inr ⟨rfl, rfl⟩, fun _ _ _ => trivial⟩ tokens s0 trivial
  exact inv.reads

/-- Every identifier the evaluator resolves is a key of `locals` or a key of `globals`. -/
theorem names_resolved (h : Host σ Obj) (locals globals : Env Obj) (tokens : List Tok) (s0 : σ) :
    ∀ n ∈ namesResolved (eval h locals globals tokens s0),
      n ∈ locals.map Prod.fst ∨ n ∈ globals.map Prod.fst := by
  have inv := inv_eval (h := h) (locals := locals) (globals := globals)
    (R := fun _ => True) (N := fun n => n ∈ locals.map Prod.fst ∨ n ∈ globals.map Prod.fst)
    (H := fun _ => True) (hostOK_true h)
    ⟨fun _ _ _ => trivial, fun _ => trivial, fun n o hf => by
      rcases hf with hf | hf
      · exact Or.inl (Env.find_some_mem_keys _ n o hf)
      · exact Or.inr (Env.find_some_mem_keys _ n o hf)⟩ tokens s0 trivial
  exact inv.names

/-- The generated `DEFAULT_GLOBALS` key list and the whitelist documented in the module docstring contain
    the same names. -/
theorem whitelist_eq_documented : ∀ n : String, n ∈ defaultGlobals ↔ n ∈ documentedGlobals := by
  have key : (defaultGlobals.all (documentedGlobals.contains ·) &&
      documentedGlobals.all (defaultGlobals.contains ·)) = true := by decide
  intro n
  simp only [Bool.and_eq_true, List.all_eq_true, List.contains_iff_mem] at key
  exact ⟨fun hn => key.1 n hn, fun hn => key.2 n hn⟩

/-- No duplicates hide in either list (so "same names" is "same set, same size"). -/
theorem whitelist_nodup : defaultGlobals.Nodup ∧ documentedGlobals.Nodup ∧
    defaultGlobals.length = documentedGlobals.length := by decide

/-- With the default globals (keys = the generated table), every resolved identifier is a given variable
    or a documented whitelisted builtin. -/
theorem names_resolved_default (h : Host σ Obj) (locals globals : Env Obj)
    (hg : globals.map Prod.fst = defaultGlobals) (tokens : List Tok) (s0 : σ) :
    ∀ n ∈ namesResolved (eval h locals globals tokens s0),
      n ∈ locals.map Prod.fst ∨ n ∈ documentedGlobals := by
  intro n hn
  rcases names_resolved h locals globals tokens s0 n hn with hl | hgl
  · exact Or.inl hl
  · rw [hg] at hgl
    exact Or.inr ((whitelist_eq_documented n).1 hgl)

/-- non-vacuity of `hg`: the globals environment the stream handler uses -/
example : (defaultGlobals.map fun n => (n, CV.builtin n)).map Prod.fst = defaultGlobals := by decide

/-! ### the same statements about the HOST CALLS (recording wrapper `spy`) -/

/-- THE HOST IS NEVER ASKED FOR AN UNDERSCORE ATTRIBUTE.  `spy h` records every name its `getattr` receives, whoever
    calls it; for every host `h`, token list, environment and initial state, no recorded name starts with "_".
    Unlike `no_underscore_getattr` this is not a statement about a log the evaluator writes itself: an evaluator
    whose `get_member` passed an underscore name to the host (and returned the private value) without logging it
    would still satisfy `no_underscore_getattr`, but its run on `spy h` would record the name and falsify this
    theorem.  (`HostOK.getattr` is assumed for public names only, so the invariant proof must show publicity of the
    name at each of the two call sites.) -/
theorem host_never_asked_underscore (h : Host σ Obj) (locals globals : Env Obj) (tokens : List Tok) (s0 : σ) :
    ∀ n ∈ (eval (spy h) locals globals tokens (s0, [])).2.hs.2, ¬ (n.startsWith "_" = true) := by
  have inv := inv_eval (h := spy h) (locals := locals) (globals := globals)
    (R := fun _ => True) (N := fun _ => True) (H := SpyPub) (spy_hostOK h)
    ⟨fun _ _ _ => trivial, fun _ => trivial, fun _ _ _ => trivial⟩ tokens (s0, []) (fun _ hm => nomatch hm)
  exact inv.host

/-- The evaluator's own `reads` log is faithful: on `spy h` it lists exactly the names the host's `getattr` was
    asked for, in the same order. -/
theorem ghost_log_faithful (h : Host σ Obj) (locals globals : Env Obj) (tokens : List Tok) (s0 : σ) :
    (attrReads (eval (spy h) locals globals tokens (s0, []))).map Prod.snd =
      (eval (spy h) locals globals tokens (s0, [])).2.hs.2 := by
  have hf := faithful_eval (h := h) (locals := locals) (globals := globals) tokens s0
  simp only [Faithful] at hf
  simp only [attrReads, List.map_map]
  exact hf

/-- ERASURE: the recording wrapper is invisible — `eval` over `spy h` returns the same result, leaves the same host
    state and writes the same evaluator log as `eval` over `h`. -/
theorem spy_erasure (h : Host σ Obj) (locals globals : Env Obj) (tokens : List Tok) (s0 : σ) :
    (eval (spy h) locals globals tokens (s0, [])).1 = (eval h locals globals tokens s0).1 ∧
    (eval (spy h) locals globals tokens (s0, [])).2.hs.1 = (eval h locals globals tokens s0).2.hs ∧
    attrReads (eval (spy h) locals globals tokens (s0, [])) = attrReads (eval h locals globals tokens s0) := by
  have hs := sim_eval (h := h) (locals := locals) (globals := globals) tokens s0 []
  obtain ⟨h1, h2, h3, _⟩ := hs
  refine ⟨h1.symm, h2, ?_⟩
  simp only [attrReads, h3]

/-- Hence, for EVERY host and every run of the evaluator itself (not of a wrapper): the names of the evaluator's
    attribute reads are exactly the names that the host's `getattr` is asked for when the same run is observed
    through the recording wrapper, and none of them starts with an underscore. -/
theorem host_calls_are_the_logged_reads (h : Host σ Obj) (locals globals : Env Obj) (tokens : List Tok) (s0 : σ) :
    (attrReads (eval h locals globals tokens s0)).map Prod.snd =
      (eval (spy h) locals globals tokens (s0, [])).2.hs.2 ∧
    ∀ n ∈ (eval (spy h) locals globals tokens (s0, [])).2.hs.2, ¬ (n.startsWith "_" = true) := by
  refine ⟨?_, host_never_asked_underscore h locals globals tokens s0⟩
  rw [← (spy_erasure h locals globals tokens s0).2.2]
  exact ghost_log_faithful h locals globals tokens s0

/-! ### obligations on the generated operator table -/

/-- Only `get_member` receives an un-evaluated operand. -/
theorem only_member_keeps_raw_operand :
    ∀ s ∈ opTable, s.exec ≠ Exec.member → s.expand.all id = true := by decide

/-- The MEMBER_ACCESS row: evaluated left operand, raw right operand, and it is the only `get_member` row. -/
theorem member_access_row :
    (opTable.filter fun s => s.exec == Exec.member) =
      [{ name := "MEMBER_ACCESS", token := ".", priority := 1, leftAssoc := true, arity := 2,
         expand := [true, false], nparams := 2, exec := .member, byName := true }] := by decide

/-- Number of lambda parameters a shape needs. -/
def shapeParams : Exec → Nat
  | .pos | .neg | .lnot | .inv => 1
  | _ => 2

/-- In every row the lambda has the number of parameters its shape needs, `expand` covers the arity, and
    operator names are unique. -/
theorem table_shapes :
    (∀ s ∈ opTable, s.nparams = shapeParams s.exec ∧ s.expand.length = s.arity) ∧
    (opTable.map (·.name)).Nodup := by decide

/-- A spec behaves like a row of the real table: only `member` keeps a raw (second) operand. -/
def WellFormed (s : OpSpec) : Prop :=
  s.nparams = shapeParams s.exec ∧
  (s.exec ≠ Exec.member → s.expand.all id = true) ∧
  (s.exec = Exec.member → s.expand.head? = some true)

theorem table_wellFormed : ∀ s ∈ opTable, WellFormed s := by
  have h : ∀ s ∈ opTable, (s.nparams == shapeParams s.exec &&
      (s.exec == Exec.member || s.expand.all id) &&
      (s.exec != Exec.member || s.expand.head? == some true)) = true := by decide
  intro s hs
  have := h s hs
  simp only [Bool.and_eq_true, Bool.or_eq_true, beq_iff_eq, bne_iff_ne, ne_eq] at this
  refine ⟨this.1.1, ?_, ?_⟩
  · intro hne
    rcases this.1.2 with h1 | h1
    · exact absurd h1 hne
    · exact h1
  · intro heq
    rcases this.2 with h1 | h1
    · exact absurd heq h1
    · exact h1

/-- all operands produced under all-true expand flags are evaluated objects -/
def AllObj (l : List (SVal Obj)) : Prop := ∀ v ∈ l, ∃ o, v = SVal.obj o

theorem expandArgs_allObj (h : Host σ Obj) (locals globals : Env Obj) (es : List Bool) (hes : es.all id = true)
    (vs : List (SVal Obj)) (s : ES σ Obj) (r : List (SVal Obj)) (s' : ES σ Obj)
    (hr : expandArgs h locals globals es vs s = (.ok r, s')) : AllObj r := by
  induction es generalizing vs s r s' with
  | nil =>
    unfold expandArgs at hr
    simp only [M.pure, Prod.mk.injEq, Except.ok.injEq] at hr
    intro v hv; rw [← hr.1] at hv; cases hv
  | cons e es ih =>
    simp only [List.all_cons, id_eq, Bool.and_eq_true] at hes
    cases vs with
    | nil =>
      unfold expandArgs at hr
      simp only [M.pure, Prod.mk.injEq, Except.ok.injEq] at hr
      intro v hv; rw [← hr.1] at hv; cases hv
    | cons v vs =>
      unfold expandArgs at hr
      simp only [hes.1, if_true] at hr
      unfold M.bind at hr
      split at hr
      · rename_i o s1 _
        dsimp only at hr
        split at hr
        · rename_i r' s2 heq2
          simp only [M.pure, Prod.mk.injEq, Except.ok.injEq] at hr
          have ih' := ih hes.2 vs s1 r' s2 heq2
          intro w hw
          rw [← hr.1] at hw
          simp only [List.mem_cons] at hw
          rcases hw with hw | hw
          · exact ⟨o, hw⟩
          · exact ih' w hw
        · simp at hr
      · simp at hr

theorem expandArgs_headObj (h : Host σ Obj) (locals globals : Env Obj) (es : List Bool)
    (hes : es.head? = some true)
    (vs : List (SVal Obj)) (s : ES σ Obj) (r : List (SVal Obj)) (s' : ES σ Obj)
    (hr : expandArgs h locals globals es vs s = (.ok r, s')) : ∀ v, r.head? = some v → ∃ o, v = SVal.obj o := by
  cases es with
  | nil => simp at hes
  | cons e es =>
    simp only [List.head?_cons, Option.some.injEq] at hes
    subst hes
    cases vs with
    | nil =>
      unfold expandArgs at hr
      simp only [M.pure, Prod.mk.injEq, Except.ok.injEq] at hr
      intro v hv; rw [← hr.1] at hv; simp at hv
    | cons v vs =>
      unfold expandArgs at hr
      simp only [if_true] at hr
      unfold M.bind at hr
      split at hr
      · rename_i o s1 _
        dsimp only at hr
        split at hr
        · simp only [M.pure, Prod.mk.injEq, Except.ok.injEq] at hr
          intro w hw
          rw [← hr.1] at hw
          simp only [List.head?_cons, Option.some.injEq] at hw
          exact ⟨o, hw.symm⟩
        · simp at hr
      · simp at hr


/-! ### witnesses on the concrete host -/

namespace Witness

def host : HostDesc :=
  { sents := [{ id := 1, attrs := [("pub", .int 5), ("_priv", .str "SECRET"), ("_w", .int 6)], meths := [] }] }
def locals : Env CV := [("x", .sent 1)]
def globals : Env CV := defaultGlobals.map fun n => (n, CV.builtin n)
def opNamed (n : String) : Tok := match lookupOp n with | some s => .op s | none => .other n

/-- RPN of `x.pub` as produced by the real parser -/
def tokPub : List Tok := [.ident "x" 1, .ident "pub" 5, opNamed "MEMBER_ACCESS"]
/-- RPN of `x._priv` -/
def tokPriv : List Tok := [.ident "x" 1, .ident "_priv" 7, opNamed "MEMBER_ACCESS"]
/-- RPN of `'{0._priv}'.format(x)` as produced by the real parser -/
def tokFormat : List Tok :=
  [.str "{0._priv}", .ident "format" 17, opNamed "MEMBER_ACCESS", .ident "x" 19, .fsc 1 .tuple, opNamed "FUNCTION_CALL"]

def isStr (r : Except Exc (SVal CV)) (s : String) : Bool :=
  match r with | .ok (.obj (.str t)) => t == s | _ => false
def isInt (r : Except Exc (SVal CV)) (i : Int) : Bool :=
  match r with | .ok (.obj (.int t)) => t == i | _ => false
def isExc (r : Except Exc (SVal CV)) (e : String) : Bool :=
  match r with | .error t => t == e | _ => false
def readNames (r : Except Exc (SVal CV) × ES CState CV) : List String := (attrReads r).map (·.2)

/-- non-vacuity: `x.pub` evaluates to 5 and the evaluator's log contains exactly the read of `pub` -/
example : let r := eval (concreteHost host) locals globals tokPub []
    (isInt r.1 5 && readNames r == ["pub"] && namesResolved r == ["x"]) = true := by decide +kernel

/-- the guarded path: `x._priv` is refused with ParseError and nothing is read -/
example : let r := eval (concreteHost host) locals globals tokPriv []
    (isExc r.1 "ParseError" && readNames r == [] && r.2.hs == []) = true := by decide +kernel

/-- After fix e68be99 the RPN of `'{0._priv}'.format(x)` is refused: `get_member` hands out `_safe_format`
    (no `getattr` is issued at all), whose `get_field` raises `ParseError` before anything is looked up. -/
theorem format_refused_witness : let r := eval (concreteHost host) locals globals tokFormat []
    (isExc r.1 "ParseError" && readNames r == [] && r.2.hs == []) = true := by decide +kernel

/-- THE PRE-FIX BYPASS (D15): with a formatter that lacks the refusal in `get_field` (`concreteHostWith false`,
    i.e. what `str.format` does), the same token list returns the private value, and the underscore read
    happens inside the HOST operation `call` while the evaluator's own log stays clean.  This is why
    `no_underscore_getattr` alone does not give C19 and the host contract is needed. -/
theorem prefix_format_bypass_witness : let r := eval (concreteHostWith false host) locals globals tokFormat []
    (isStr r.1 "SECRET" && readNames r == [] && r.2.hs == [(1, "_priv")]) = true := by decide +kernel

/-- RPN of `'{0:>{1._w}}'.format('ab', x)`: the underscore attribute sits in a field NESTED in the format spec. -/
def tokNested : List Tok :=
  [.str "{0:>{1._w}}", .ident "format" 19, opNamed "MEMBER_ACCESS", .str "ab", .ident "x" 27, .fsc 2 .tuple,
   opNamed "FUNCTION_CALL"]

/-- `string.Formatter` recurses into the format spec, so `_SafeFormatter.get_field` also vets nested fields. -/
theorem nested_spec_refused_witness : let r := eval (concreteHost host) locals globals tokNested []
    (isExc r.1 "ParseError" && readNames r == [] && r.2.hs == []) = true := by decide +kernel

/-- Without the refusal the nested field is traversed: `_w = 6` becomes the width. -/
theorem prefix_nested_spec_witness : let r := eval (concreteHostWith false host) locals globals tokNested []
    (isStr r.1 "    ab" && r.2.hs == [(1, "_w")]) = true := by decide +kernel

/-! #### format fields and reflective objects (the gap in contract clause (b)) -/

/-- a host with a generator `g` whose frame's globals hold `__builtins__` (the builtins dict) and a private `_REC` -/
def hostG : HostDesc :=
  { sents := [], ns := { globals := ["__builtins__", "__name__", "_REC"], locals := [], builtins := ["getattr", "open"],
                         gbIsBuiltins := true } }
def localsG : Env CV := [("g", .gen)]
def tokFmtG (fmt : String) : List Tok :=
  [.str fmt, .ident "format" 40, opNamed "MEMBER_ACCESS", .ident "g" 48, .fsc 1 .tuple, opNamed "FUNCTION_CALL"]
def isOStr (r : Except Exc (SVal CV)) : Bool :=
  match r with | .ok (.obj .ostr) => true | _ => false

/-- `g.gi_frame` is refused by `get_member` (fix 091716e) … -/
theorem member_of_generator_refused_witness :
    let r := eval (concreteHost hostG) localsG globals [.ident "g" 0, .ident "gi_frame" 2, opNamed "MEMBER_ACCESS"] []
    (isExc r.1 "ParseError" && readNames r == [] && r.2.hs == []) = true := by decide +kernel

/-- … and, since /repo dfac3bc (fix D40), so is the same walk written as a replacement field:
    `'{0.gi_frame.f_globals[__builtins__][getattr]}'.format(g)` used to succeed (the formatter read `gi_frame` of the
    generator and `f_globals` of the frame, public names, and indexed the namespaces with unvetted keys); now the
    first attribute step on the generator is refused and nothing is read. -/
theorem format_traverses_reflective_witness :
    let r := eval (concreteHost hostG) localsG globals (tokFmtG "{0.gi_frame.f_globals[__builtins__][getattr]}") []
    (isExc r.1 "ParseError" && readNames r == [] && r.2.hs == []) = true := by decide +kernel

/-- likewise for a module-private global (`[_REC]` is an index step, not an attribute step, but the walk never gets
    past the generator) -/
theorem format_reads_private_global_witness :
    let r := eval (concreteHost hostG) localsG globals (tokFmtG "{0.gi_frame.f_globals[_REC]}") []
    (isExc r.1 "ParseError" && r.2.hs == []) = true := by decide +kernel

/-- an underscore ATTRIBUTE step is refused before anything is looked up -/
theorem format_underscore_attribute_of_frame_refused_witness :
    let r := eval (concreteHost hostG) localsG globals (tokFmtG "{0.gi_frame._x}") []
    (isExc r.1 "ParseError" && r.2.hs == []) = true := by decide +kernel

/-- every attribute of a generator is out of reach of a replacement field, public or not -/
example : let r := eval (concreteHost hostG) localsG globals (tokFmtG "{0.gi_code.nope}") []
    isExc r.1 "ParseError" = true := by decide +kernel
example : let r := eval (concreteHost hostG) localsG globals (tokFmtG "{0.gi_running}") []
    isExc r.1 "ParseError" = true := by decide +kernel
/-- the generator itself can still be formatted (no attribute step) -/
example : let r := eval (concreteHost hostG) localsG globals (tokFmtG "{0}") []
    isExc r.1 "ParseError" = false := by decide +kernel

/-- non-vacuity of `host_never_asked_underscore` / `ghost_log_faithful`: on the recording wrapper of the concrete
    host, `x.pub` asks the host for exactly `pub`, and `x._priv` asks for nothing -/
example : let r := eval (spy (concreteHost host)) locals globals tokPub ([], [])
    (isInt r.1 5 && r.2.hs.2 == ["pub"] && (attrReads r).map (·.2) == ["pub"]) = true := by decide +kernel
example : let r := eval (spy (concreteHost host)) locals globals tokPriv ([], [])
    (isExc r.1 "ParseError" && r.2.hs.2 == []) = true := by decide +kernel

end Witness

/-! ### `get_member`'s two refusals -/

/-- `get_member` never issues a `getattr` on an object of `_REFLECTIVE_TYPES` and always raises. -/
theorem reflective_member_refused (h : Host σ Obj) (a : Obj) (name : String) (off : Nat) (s : ES σ Obj)
    (hr : h.isReflective a = true) :
    (getMember h a (.tok (.ident name off)) s).2.reads = s.reads ∧
    ∃ e, (getMember h a (.tok (.ident name off)) s).1 = .error e := by
  unfold getMember
  by_cases hu : name.startsWith "_" = true
  · simp only [hu, if_true, M.bind, M.lift, M.throw]
    split <;> (rename_i heq; simp only [Prod.mk.injEq] at heq; obtain ⟨_, rfl⟩ := heq; exact ⟨rfl, _, rfl⟩)
  · simp [hu, hr, M.throw]

/-- For the names of `_SAFE_STR_METHODS`, `get_member` on the type `str` returns the safe function and on a
    str instance the safe partial, without issuing any `getattr` (the real `str.format` is unreachable). -/
theorem safe_method_intercepted (h : Host σ Obj) (a : Obj) (name : String) (off : Nat) (s : ES σ Obj)
    (hn : name ∈ safeStrMethods) (hu : ¬ (name.startsWith "_" = true)) (hr : h.isReflective a = false) :
    (h.isStrType a = true → getMember h a (.tok (.ident name off)) s = (.ok (h.safeFn name), s)) ∧
    (h.isStrType a = false → h.isStrInst a = true →
      getMember h a (.tok (.ident name off)) s = (.ok (h.mkPartial name a), s)) := by
  constructor
  · intro ht; simp [getMember, hu, hr, hn, ht, M.pure]
  · intro ht hi; simp [getMember, hu, hr, hn, ht, hi, M.pure]

/-- the intercepted names are public, so the hypothesis `hu` above is satisfiable for each of them -/
example : ∀ n ∈ safeStrMethods, ¬ (n.startsWith "_" = true) := by decide +kernel

/-! ### the concrete host performs no underscore read inside its operations -/

/-- every attribute read recorded in the concrete host's state has a public name -/
def Pub (st : CState) : Prop := ∀ p ∈ st, ¬ (p.2.startsWith "_" = true)

theorem hostGetattr_pub (d : HostDesc) (o : CV) (name : String) (st : CState)
    (hn : ¬ (name.startsWith "_" = true)) (hp : Pub st) : Pub (hostGetattr d o name st).2 := by
  unfold hostGetattr
  have app : ∀ id : Nat, Pub (st ++ [(id, name)]) := by
    intro id p hm
    simp only [List.mem_append, List.mem_singleton] at hm
    rcases hm with hm | hm
    · exact hp p hm
    · rw [hm]; exact hn
  split
  · exact app _
  · exact app 0
  · exact app 0
  · exact app 0
  · exact hp
  · exact hp
  · exact hp
  · exact hp

theorem walkPath_pub (safe : Bool) (d : HostDesc) (path : List FStep) (hpath : path.any stepIsPrivate = false)
    (v : CV) (st : CState) (hp : Pub st) : Pub (walkPath safe d path v st).2 := by
  induction path generalizing v st with
  | nil => unfold walkPath; exact hp
  | cons stp rest ih =>
    simp only [List.any_cons, Bool.or_eq_false_iff] at hpath
    cases stp with
    | attr n =>
      have hn : ¬ (n.startsWith "_" = true) := by
        have := hpath.1; simp only [stepIsPrivate] at this; simp [this]
      unfold walkPath
      have h1 := hostGetattr_pub d v n st hn hp
      split
      · exact hp
      · split
        · rename_i v' st' heq; rw [heq] at h1; exact ih hpath.2 v' st' h1
        · rename_i e st' heq; rw [heq] at h1; exact h1
    | idx k =>
      unfold walkPath
      dsimp only
      split
      · exact ih hpath.2 _ st hp
      · exact hp

theorem resolveRef_pub (d : HostDesc) (args : List CV) (mapping : Option CV) (r : FRef)
    (auto : Option Nat) (st : CState) (hp : Pub st) :
    Pub (resolveRef true d args mapping r auto st).2 := by
  unfold resolveRef
  simp only [Bool.true_and]
  split
  · exact hp
  · split
    · exact hp
    · rename_i hpriv
      simp only [Bool.not_eq_true] at hpriv
      split
      · exact hp
      · rename_i v _
        have h1 := walkPath_pub true d r.path hpriv v st hp
        split
        · rename_i heq; rw [heq] at h1; exact h1
        · rename_i o st' heq
          rw [heq] at h1
          split
          · exact h1
          · split <;> exact h1

theorem renderSpec_pub (d : HostDesc) (args : List CV) (mapping : Option CV) (ps : List SPiece)
    (auto : Option Nat) (st : CState) (hp : Pub st) :
    Pub (renderSpec true d args mapping ps auto st).2 := by
  induction ps generalizing auto st with
  | nil => unfold renderSpec; exact hp
  | cons p rest ih =>
    cases p with
    | lit s =>
      unfold renderSpec
      have h1 := ih auto st hp
      split <;> (rename_i heq; rw [heq] at h1; exact h1)
    | ref r =>
      unfold renderSpec
      have h1 := resolveRef_pub d args mapping r auto st hp
      split
      · rename_i heq; rw [heq] at h1; exact h1
      · rename_i o auto' st' heq
        rw [heq] at h1
        split
        · exact h1
        · have h2 := ih auto' st' h1
          split <;> (rename_i heq2; rw [heq2] at h2; exact h2)

theorem renderPieces_pub (d : HostDesc) (args : List CV) (mapping : Option CV) (ps : List FPiece)
    (auto : Option Nat) (st : CState) (hp : Pub st) :
    Pub (renderPieces true d args mapping ps auto st).2 := by
  induction ps generalizing auto st with
  | nil => unfold renderPieces; exact hp
  | cons p rest ih =>
    cases p with
    | lit s =>
      unfold renderPieces
      have h1 := ih auto st hp
      split <;> (rename_i heq; rw [heq] at h1; exact h1)
    | field f =>
      unfold renderPieces
      have h1 := resolveRef_pub d args mapping f.ref auto st hp
      split
      · rename_i heq; rw [heq] at h1; exact h1
      · rename_i o auto1 st1 heq
        rw [heq] at h1
        have h2 := renderSpec_pub d args mapping f.spec auto1 st1 h1
        split
        · rename_i heq2; rw [heq2] at h2; exact h2
        · rename_i spec auto2 st2 heq2
          rw [heq2] at h2
          split
          · exact h2
          · have h3 := ih auto2 st2 h2
            split <;> (rename_i heq3; rw [heq3] at h3; exact h3)

theorem doFormat_pub (d : HostDesc) (fmt : String) (args : List CV) (mapping : Option CV) (st : CState)
    (hp : Pub st) : Pub (doFormat true d fmt args mapping st).2 := by
  unfold doFormat
  split
  · exact hp
  · rename_i ps _
    have h1 := renderPieces_pub d args mapping ps (some 0) st hp
    split <;> (rename_i heq; rw [heq] at h1; exact h1)

theorem cvCall_pub (d : HostDesc) (a b : CV) (st : CState) (hp : Pub st) : Pub (cvCall true d a b st).2 := by
  unfold cvCall
  split
  · exact hp
  · split
    · exact hp
    · split
      · split <;> exact hp
      · exact doFormat_pub _ _ _ _ _ hp
      · split
        · exact doFormat_pub _ _ _ _ _ hp
        · exact hp
      · split
        · exact doFormat_pub _ _ _ _ _ hp
        · exact hp
      · split
        · exact doFormat_pub _ _ _ _ _ hp
        · exact hp
      · exact hp

theorem evalGetattr_pub (d : HostDesc) (a : CV) (n : String) (hn : ¬ (n.startsWith "_" = true)) (st : CState)
    (hp : Pub st) : Pub (evalGetattr d a n st).2 := by
  unfold evalGetattr
  dsimp only
  split
  · intro p hm
    simp only [List.mem_append, List.mem_singleton] at hm
    rcases hm with hm | hm
    · exact hp p hm
    · rw [hm]; exact hn
  · exact hp

theorem concreteHost_ok (d : HostDesc) : HostOK (concreteHost d) Pub :=
  ⟨fun a n hn t h => evalGetattr_pub d a n hn t h, fun a b t h => cvCall_pub d a b t h, fun _ _ _ h => h, fun _ _ h => h,
   fun _ _ h => h, fun _ _ _ _ h => h, fun _ _ h => h, fun _ _ h => h⟩

/-- On the concrete host of the correspondence stream — sentinel objects with private attributes, callable
    attributes, a generator with its frame / code object / namespaces, and the model of `_safe_format` /
    `_safe_format_map` with field traversal — every ATTRIBUTE read on a sentinel or a reflective object, whether issued
    by the evaluator (`evalGetattr`) or inside the host operation `call` (format traversal, `hostGetattr`), is recorded
    in the host state, and none has an underscore name: C19's "never reads an underscore attribute" for this host, for
    every token list and every environment.  (Index steps of format fields — `[__builtins__]`, `[_name]` on a
    namespace — are not attribute reads and are not recorded; see `format_reads_private_global_witness`.) -/
theorem concrete_host_no_underscore (d : HostDesc) (locals globals : Env CV) (tokens : List Tok) :
    ∀ p ∈ (eval (concreteHost d) locals globals tokens []).2.hs, ¬ (p.2.startsWith "_" = true) := by
  have inv := inv_eval (h := concreteHost d) (locals := locals) (globals := globals)
    (R := fun _ => True) (N := fun _ => True) (H := Pub) (concreteHost_ok d)
    ⟨fun _ _ _ => trivial, fun _ => trivial, fun _ _ _ => trivial⟩ tokens [] (fun _ hp => nomatch hp)
  exact inv.host

end GtModel.C19

/-
  C20 — malformed input is reported, not crashed on  (PARTIAL).
  Proved: over the except-clause table and exception MROs regenerated from /repo on every run, every exception
  class the external parser of a text format is ASSUMED to raise on invalid syntax is caught by that format's
  `build_tree_handling_errors`; and main()'s error path then yields exit status ≠ 0, no diff on stdout, the file
  named on stderr and no uncaught exception, for either file position.
  NOT proved: that the external parsers raise only the assumed classes (validated on every run by the fault
  enumeration of the `faults` stream), the f-string that formats the message (the JSON5 defect was exactly
  there; the `faults` stream covers it), CSV and pickle (excluded by the property).
-/
import GtModel.Model.Cli

namespace GtModel.C20
open GtModel.Cli

def textFormats : List String := ["json", "json5", "yaml", "xml", "html", "plist"]

/-- `raisable T ⊆ caught T` (by MRO) for every text format — a finite check over the generated tables -/
theorem handlers_cover : ∀ ty ∈ textFormats, handlersCover ty = true := by decide

theorem invalid_yields_message (ty : String) (h : ty ∈ textFormats) : loadOfInvalid ty = .message := by
  simp [loadOfInvalid, handlers_cover ty h]

/-- an invalid FIRST file: whatever the second file is -/
theorem error_path_first (ty : String) (h : ty ∈ textFormats) (lt : Load) (differ : Bool) :
    let o := outcome (loadOfInvalid ty) lt differ
    o.exit ≠ 0 ∧ o.stdoutEmpty = true ∧ o.stderrNamesFile = true ∧ o.uncaught = false := by
  simp [invalid_yields_message ty h, outcome]

/-- an invalid SECOND file after a first file that loaded -/
theorem error_path_second (ty : String) (h : ty ∈ textFormats) (differ : Bool) :
    let o := outcome .tree (loadOfInvalid ty) differ
    o.exit ≠ 0 ∧ o.stdoutEmpty = true ∧ o.stderrNamesFile = true ∧ o.uncaught = false := by
  simp [invalid_yields_message ty h, outcome]

/-- the negative direction that makes the table check meaningful: a handler that caught nothing would let the
    exception escape (so deleting an `except` clause in /repo flips `handlers_cover`) -/
example : catches "csv" "builtins.ValueError" = false := by decide
example : catches "json" "json.decoder.JSONDecodeError" = true := by decide

end GtModel.C20
